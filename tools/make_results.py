#!/venv/bin/python
"""Render /verif/seeded/RESULTS.md from sensitivity/results-quick-seeded.json (+ thorough if present) and the meta files."""
import json, os
V = os.path.dirname(os.path.dirname(os.path.abspath(__file__)))
res = {}
for tier in ('quick', 'thorough'):
    p = os.path.join(V, 'sensitivity', 'results-%s-seeded.json' % tier)
    if os.path.exists(p):
        for r in json.load(open(p)):
            res.setdefault(r['id'], {})[(r.get('property'), tier)] = r
lines = ['# Independent seeded changes and which check catches which', '',
         'Each directory holds `patch.diff` (apply with `git -C /repo apply`), `demo.py` (exit 0 on the unchanged tree, non-zero with the patch) and',
         '`meta.json`. Every change was written by a sub-agent that saw only the property text and a scratch worktree, passes the 454 tests,',
         'and was confirmed independently by `tools/import_seeded.sh` (fresh scratch worktree: demo, apply, full pytest, demo).',
         'Detection is by `tools/run_mutants.py --seeded` (scratch copy + `PYX12_REPO`), quick tier unless stated.', '',
         '| id | breaks | what it is / what it needs | detected by (tier, seconds) | first violation |', '|---|---|---|---|---|']
for d in sorted(os.listdir(os.path.join(V, 'seeded'))):
    mp = os.path.join(V, 'seeded', d, 'meta.json')
    if not os.path.exists(mp):
        continue
    m = json.load(open(mp))
    rs = res.get(d, {})
    det = []
    first = ''
    for (prop, tier), r in sorted(rs.items(), key=str):
        if r.get('detected'):
            det.append('%s (%s, %ss)' % (prop, tier, r['seconds']))
            first = first or (r.get('first_violation') or [''])[0][:140].replace('|', '\\|')
    status = ', '.join(det) if det else ('**not detected** - ' + m.get('not_detected_reason', 'see DESIGN.md section 16.1'))
    if m.get('superseded'):
        status = '*superseded by a repair of /repo* - ' + m['superseded']
    for k in ('rebased', 'demo_adjusted'):
        if m.get(k):
            status += ' [' + m[k][:160] + ']'
    what = ((m.get('summary') or '')[:260] + ' NEEDS: ' + (m.get('needs_to_manifest') or '')[:200]).replace('|', '\\|').replace('\n', ' ')
    lines.append('| %s | %s | %s | %s | %s |' % (d, m.get('property'), what, status, first))
open(os.path.join(V, 'seeded', 'RESULTS.md'), 'w').write('\n'.join(lines) + '\n')
print('written', len(lines) - 9, 'rows')
