#!/venv/bin/python
"""Merge the side files written by parallel `run_mutants.py --out` streams into sensitivity/results-<tier>[-seeded].json.
usage: merge_results.py <target.json> <side.json> [...]   (a later entry for the same (id, property) replaces the earlier one)"""
import json, os, sys
target, sides = sys.argv[1], sys.argv[2:]
res = json.load(open(target)) if os.path.exists(target) else []
for p in sides:
    if not os.path.exists(p):
        print('missing', p); continue
    fresh = json.load(open(p))
    keys = set((r['id'], r.get('property')) for r in fresh)
    res = [r for r in res if (r['id'], r.get('property')) not in keys] + fresh
res.sort(key=lambda r: (r['id'], r.get('property') or ''))
json.dump(res, open(target, 'w'), indent=1)
det = sum(1 for r in res if r.get('detected')); print('merged', len(res), 'rows,', det, 'detected ->', target)
