#!/venv/bin/python
"""Rebuild a run_mutants side file from the log of a stream that was stopped before it wrote one.
usage: log_to_results.py <stream.log> <out.json> [kind]"""
import json, re, sys
log, out = sys.argv[1], sys.argv[2]
kind = sys.argv[3] if len(sys.argv) > 3 else 'seeded'
rows = []
pat = re.compile(r'^(\S+)\s+(C\d\d)\s+(quick|thorough)\s+(DETECTED|missed|HARNESS-ERROR exit \d+)\s+([\d.]+)s ?(.*)$')
for line in open(log, errors='replace'):
    m = pat.match(line.rstrip('\n'))
    if m:
        mid, prop, tier, verdict, secs, viol = m.groups()
        rows.append({'id': mid, 'kind': kind, 'property': prop, 'tier': tier, 'exit': 1 if verdict == 'DETECTED' else (0 if verdict == 'missed' else 2),
                     'detected': verdict == 'DETECTED', 'seconds': float(secs), 'first_violation': [viol] if viol else [], 'tests': None,
                     'from_log': True})
json.dump(rows, open(out, 'w'), indent=1)
print('rows', len(rows), '->', out)
