#!/venv/bin/python
"""Regenerate /verif/MANIFEST.json from the table below (kept in one place so it is always valid)."""
import json, os, sys
V = os.path.dirname(os.path.dirname(os.path.abspath(__file__)))
PY = '/venv/bin/python'
BASE_OFF = "cd /repo && /venv/bin/python -m pytest -ra -q -p no:cacheprovider --timeout=900 --continue-on-collection-errors"

CLAIMED = {
 # id: (category, technique, text, note, design_ref)
}
NA = {}
exec(open(os.path.join(V, 'tools', 'manifest_table.py')).read())

checks = []
for pid in sorted(CLAIMED):
    cat, tech, text, note, ref = CLAIMED[pid]
    checks.append({
        'property_id': pid,
        'quick_cmd': '%s /verif/sim/check.py %s --tier quick' % (PY, pid),
        'thorough_cmd': '%s /verif/sim/check.py %s --tier thorough' % (PY, pid),
        'evidence_file': '/verif/evidence/%s.json' % pid,
        'replay_cmd_template': '%s /verif/sim/check.py --replay {path}' % PY,
        'engine': 'pyx12sim',
        'level_claimed': {'category': cat, 'text': text, 'design_ref': ref},
        'level_note': note,
        'technique': tech,
    })
m = {
 'version': 1,
 'setup_cmd': '%s /verif/sim/setup_check.py' % PY,
 'hooks': {'guard': 'PYX12_VERIF', 'enable': 'no source hooks: all seams are stream arguments or module attributes replaced by the harness at run time (time, random, rawx12file.DEFAULT_BUFSIZE, error_handler.err_handler)',
           'baseline_off_cmd': BASE_OFF, 'source_commits': [], 'add_only': True},
 'engines': [{'name': 'pyx12sim', 'path': '/verif/sim', 'serves_properties': sorted(CLAIMED),
              'kind_free_text': 'deterministic simulation with fault injection: seeded scheduler over read chunking, EOF/crash points, call histories, clock/PRNG/hash-seed, injected data faults; reference models as oracles; ddmin minimisation; replay files'}],
 'checks': checks,
 'not_applicable': [{'property_id': k, 'reason': NA[k]} for k in sorted(NA)],
 'notes': 'Checks import pyx12 from /repo working tree on every invocation (PYX12_REPO overrides for mutant copies); nothing is cached between invocations. known_findings.json lists recorded/fixed genuine defects.',
}
json.dump(m, open(os.path.join(V, 'MANIFEST.json'), 'w'), indent=1)
print('claimed', sorted(CLAIMED), 'na', sorted(NA))
