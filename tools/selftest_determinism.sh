#!/bin/bash
# Determinism self-test: every check, same VERIF_SEED, (a) 16 workers vs 5 workers, (b) driver under another PYTHONHASHSEED,
# must explore exactly the same case set: evaluations, distinct states, fired faults and probes must be identical.
# (Each check additionally re-executes its first runs in a second interpreter under another hash seed on every invocation
#  and compares case digests and event-log digests: coverage.determinism_probe in the evidence.)
# usage: selftest_determinism.sh [seed] [props...]
SEED=${1:-424242}; shift
PROPS=${@:-C01 C02 C03 C04 C05 C06 C07 C08 C09 C10 C11 C12 C17 C19 C20}
cd /verif
fp() { /venv/bin/python - "$1" <<'PY'
import json, sys
e = json.load(open('/verif/evidence/%s.json' % sys.argv[1]))['coverage']
print(json.dumps([e['evaluations'], e['distinct_nontrivial'], e['faults_fired'], e['probes_hit'], e['determinism_probe'], e['simulated_runs']], sort_keys=True))
PY
}
rc=0
for p in $PROPS; do
  VERIF_SEED=$SEED VERIF_RUNS=${RUNS:-300} VERIF_WORKERS=16 /venv/bin/python sim/check.py $p --tier quick >/dev/null 2>&1; a=$(fp $p)
  VERIF_SEED=$SEED VERIF_RUNS=${RUNS:-300} VERIF_WORKERS=5 PYTHONHASHSEED=12345 /venv/bin/python sim/check.py $p --tier quick >/dev/null 2>&1; b=$(fp $p)
  if [ "$a" == "$b" ]; then echo "$p deterministic: $(echo $a | cut -c1-80)..."; else echo "$p DIFFERS"; echo " 16w: $a" | cut -c1-600; echo "  5w: $b" | cut -c1-600; rc=1; fi
done
exit $rc
