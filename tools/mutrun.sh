#!/bin/bash
# usage: mutrun.sh <PROP> <file-relative-to-repo> <old> <new> [extra env]   -- quick ad-hoc mutant run on a scratch copy
set -e
D=$(mktemp -d /tmp/mut.XXXXXX)
cp -r /repo/pyx12 $D/
/venv/bin/python - "$D/$2" "$3" "$4" <<'PY'
import sys
p, old, new = sys.argv[1:4]
s = open(p).read()
assert old in s, 'pattern not found'
open(p, 'w').write(s.replace(old, new, 1))
PY
cd /verif/sim
PYX12_REPO=$D timeout 600 /venv/bin/python check.py $1 --tier ${TIER:-quick} 2>&1 | grep -v WARNING | tail -${LINES_OUT:-6} || true
rm -rf $D
