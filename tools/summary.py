#!/venv/bin/python
"""Print the sensitivity totals from sensitivity/results-quick*.json and the seeded meta files."""
import json, os
V = os.path.dirname(os.path.dirname(os.path.abspath(__file__)))
pl = json.load(open(os.path.join(V, 'sensitivity', 'results-quick.json')))
print('planted: %d of %d detected' % (sum(1 for r in pl if r.get('detected')), len(pl)))
rs = json.load(open(os.path.join(V, 'sensitivity', 'results-quick-seeded.json')))
by = {}
for r in rs:
    by.setdefault(r['id'], []).append(r)
ids = sorted(d for d in os.listdir(os.path.join(V, 'seeded')) if os.path.exists(os.path.join(V, 'seeded', d, 'meta.json')))
sup = [d for d in ids if json.load(open(os.path.join(V, 'seeded', d, 'meta.json'))).get('superseded')]
act = [d for d in ids if d not in sup]
det = [d for d in act if any(r.get('detected') for r in by.get(d, []))]
print('seeded: %d changes, %d superseded (%s), %d active, %d detected; not detected: %s' % (
    len(ids), len(sup), ' '.join(sup), len(act), len(det), ' '.join(d for d in act if d not in det) or '-'))
