#!/venv/bin/python
"""Sensitivity: apply each planted mutant of tools/mutants.json (and each seeded/<id>/patch.diff) to a scratch copy of
/repo's pyx12, run the property's check (quick tier unless --tier) with PYX12_REPO=<copy>, record detected / missed.
The scratch copy lives under the system temp dir and is removed after each mutant.  Results -> /verif/sensitivity/results.json
usage: run_mutants.py [--tier quick|thorough] [--only id-substring] [--seeded] [--check-tests]"""
import argparse, json, os, shutil, subprocess, sys, tempfile, time
V = os.path.dirname(os.path.dirname(os.path.abspath(__file__)))
PY = '/venv/bin/python'

def run_check(prop, repo, tier, runs=None):
    env = dict(os.environ, PYX12_REPO=repo)
    if runs: env['VERIF_RUNS'] = str(runs)
    t = time.time()
    p = subprocess.run([PY, os.path.join(V, 'sim', 'check.py'), prop, '--tier', tier], env=env, stdout=subprocess.PIPE, stderr=subprocess.STDOUT, timeout=1800)
    out = p.stdout.decode(errors='replace')
    viol = [l for l in out.splitlines() if l.startswith('violation:')]
    return p.returncode, viol[:2], round(time.time() - t, 1)

def main():
    ap = argparse.ArgumentParser()
    ap.add_argument('--tier', default='quick'); ap.add_argument('--only'); ap.add_argument('--seeded', action='store_true')
    ap.add_argument('--check-tests', action='store_true'); ap.add_argument('--props'); ap.add_argument('--out')
    a = ap.parse_args()
    results = []
    items = []
    if not a.seeded:
        for m in json.load(open(os.path.join(V, 'tools', 'mutants.json'))):
            items.append(('planted', m['id'], [m['prop']], m))
    sd = os.path.join(V, 'seeded')
    for d in sorted(os.listdir(sd)) if (os.path.isdir(sd) and a.seeded) else []:
        mp = os.path.join(sd, d, 'meta.json')
        if os.path.exists(mp):
            meta = json.load(open(mp))
            items.append(('seeded', d, meta.get('checks') or [meta['property']], meta))
    for kind, mid, props, m in items:
        if a.only and a.only not in mid: continue
        if kind == 'seeded' and m.get('superseded'):
            results.append({'id': mid, 'kind': kind, 'property': m.get('property'), 'superseded': m['superseded'], 'detected': None})
            print('%-28s superseded by a /repo repair' % mid); continue
        if a.props: props = a.props.split(',')
        scratch = tempfile.mkdtemp(prefix='mut-')
        try:
            shutil.copytree('/repo/pyx12', os.path.join(scratch, 'pyx12'))
            if kind == 'planted':
                p = os.path.join(scratch, m['file']); s = open(p).read()
                if m['old'] not in s:
                    results.append({'id': mid, 'kind': kind, 'error': 'pattern not found'}); print(mid, 'PATTERN NOT FOUND'); continue
                open(p, 'w').write(s.replace(m['old'], m['new'], 1))
            else:
                r = subprocess.run(['git', 'apply', '--unsafe-paths', '--directory', scratch, os.path.join(sd, mid, 'patch.diff')], cwd=scratch, stdout=subprocess.PIPE, stderr=subprocess.STDOUT)
                if r.returncode != 0:
                    r = subprocess.run(['patch', '-p1', '-d', scratch, '-i', os.path.join(sd, mid, 'patch.diff')], stdout=subprocess.PIPE, stderr=subprocess.STDOUT)
                if r.returncode != 0:
                    results.append({'id': mid, 'kind': kind, 'error': 'patch failed: ' + r.stdout.decode()[-300:]}); print(mid, 'PATCH FAILED'); continue
            tests = None
            if a.check_tests:
                t = subprocess.run([PY, '-m', 'pytest', '-q', '-p', 'no:cacheprovider', '-x', 'pyx12/test'], cwd=scratch, stdout=subprocess.PIPE, stderr=subprocess.STDOUT)
                tests = t.stdout.decode(errors='replace').strip().splitlines()[-1]
            for prop in props:
                rc, viol, secs = run_check(prop, scratch, a.tier)
                rec = {'id': mid, 'kind': kind, 'property': prop, 'tier': a.tier, 'exit': rc, 'detected': rc == 1, 'seconds': secs, 'first_violation': viol[:1], 'tests': tests}
                results.append(rec)
                print('%-28s %-4s %-8s %s %5.1fs %s' % (mid, prop, a.tier, 'DETECTED' if rc == 1 else ('missed' if rc == 0 else 'HARNESS-ERROR exit %d' % rc), secs, (viol[0][:110] if viol else '')))
                sys.stdout.flush()
        finally:
            shutil.rmtree(scratch, ignore_errors=True)
    for f in ([] if a.out else os.listdir(os.path.join(V, 'replays'))):
        if f.endswith('.json'): os.unlink(os.path.join(V, 'replays', f))
    out = os.path.join(V, 'sensitivity', 'results-%s%s.json' % (a.tier, '-seeded' if a.seeded else ''))
    if a.out:
        json.dump(results, open(a.out, 'w'), indent=1); print('written', a.out); return
    if a.only and os.path.exists(out):
        # a partial run updates the stored table instead of replacing it
        old = json.load(open(out))
        fresh = set((r['id'], r.get('property')) for r in results)
        results = [r for r in old if (r['id'], r.get('property')) not in fresh] + results
        results.sort(key=lambda r: (r['id'], r.get('property') or ''))
    json.dump(results, open(out, 'w'), indent=1)
    print('written', out)

if __name__ == '__main__':
    main()
