#!/bin/bash
# Re-verify every seeded change against the current /repo HEAD in a scratch worktree:
# demo on the unchanged tree exits 0; patch applies; the 454 tests pass; demo exits non-zero with the patch.  Optional argument: id prefix (e.g. C06).
V=/tmp/verify-seeded-$$
git -C /repo worktree add -q --detach $V HEAD || exit 9
for d in /verif/seeded/${1:-}*/; do
  id=$(basename $d); [ -f $d/patch.diff ] || continue
  cd $V; git checkout -q -- . ; git clean -fdq
  sed "s#/repo#$V#g" $d/demo.py > $V/_demo.py
  /venv/bin/python _demo.py >/dev/null 2>&1; base=$?
  if ! git apply $d/patch.diff 2>/dev/null; then echo "$id: PATCH DOES NOT APPLY (base demo $base)"; continue; fi
  tests=$(/venv/bin/python -m pytest -q -p no:cacheprovider pyx12/test 2>&1 | tail -1)
  /venv/bin/python _demo.py >/dev/null 2>&1; mut=$?
  echo "$id: base_demo=$base tests='$tests' patched_demo=$mut"
done
cd /; git -C /repo worktree remove --force $V
