TRUST = 'Trusted: CPython 3.12, the refmodel package (small executable reference models that do not import pyx12), the shipped map XML as specification data. Sampling, not proof.'
CLAIMED['C01'] = ('exploration', 'deterministic simulation: seeded read-chunking/source-kind/buffer-size schedules vs reference tokeniser',
  'Seeded search over interchange texts x (source kind, chunk plan, refill-buffer size) schedules; every yielded segment is compared with an independent reference tokeniser and the normal-form law is checked on the formatted output. Exploration is the right level: the quantifier is over all chunkings and texts, which can only be sampled, but the stream seam is fully controlled so short reads, refill boundaries and the path branch are reached deterministically.',
  TRUST, 'DESIGN.md §4 C01')
_PENDING = 'check not built yet in this round (planned, DESIGN.md §12); not a statement about applicability'
for _p in ['C02','C03','C04','C05','C06','C07','C08','C09','C10','C11','C12','C17','C18','C19','C20']:
    NA[_p] = _PENDING
NA['C13'] = 'pure stateless function of (value, type, charset, version): no stream, state, clock, schedule or fault for a simulator to control; deciding it is bounded-exhaustive enumeration against a reference recogniser, which is outside this technique family (indirectly sampled through C02/C03 value generation)'
NA['C14'] = 'pure function over a finite domain (notes x presence patterns x lengths); the property itself asks for complete enumeration, i.e. model checking / exhaustive testing, not seeded simulation (indirectly sampled through C02/C03 syntax-note faults)'
NA['C15'] = 'pure function of (node definition, value, two parameters) with no history, stream or fault dimension; needs enumeration over all map nodes x value catalogue rather than simulation (the same reference element rules are the C03 oracle at sampled sites)'
NA['C16'] = 'static consistency audit of shipped data files; nothing executes over time, no schedule or fault to inject (the independent map loader used for C02/C03 workload generation touches every selectable map and would surface unloadable or dangling definitions)'
