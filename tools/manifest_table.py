TRUST = 'Trusted: CPython 3.12, the refmodel package (small executable reference models that do not import pyx12), the shipped map XML as specification data. Sampling, not proof.'
CLAIMED['C01'] = ('exploration', 'deterministic simulation: seeded read-chunking/source-kind/buffer-size schedules vs reference tokeniser',
  'Seeded search over interchange texts x (source kind, chunk plan, refill-buffer size) schedules; every yielded segment is compared with an independent reference tokeniser and the normal-form law is checked on the formatted output. Exploration is the right level: the quantifier is over all chunkings and texts, which can only be sampled, but the stream seam is fully controlled so short reads, refill boundaries and the path branch are reached deterministically.',
  TRUST, 'DESIGN.md §4 C01')
CLAIMED['C04'] = ('fault_enumeration', 'deterministic simulation: message faults (drop/duplicate/reorder/corrupt) on the segment stream vs independent envelope recount',
  'A consistent envelope skeleton is hit by 0..3 message faults from a 24-kind catalogue; the quick/thorough tiers additionally enumerate every fault kind at every applicable position of base skeletons. The reader\'s reported envelope errors are compared with an independent sequential recount (exact multiset when properly nested, at least one error otherwise). Fault enumeration fits: the property is about which discrepancies are flagged, and the fault catalogue x position space of small skeletons can be swept.',
  TRUST, 'DESIGN.md §4 C04')
CLAIMED['C11'] = ('exploration', 'deterministic simulation: seeded write histories, Close() at every prefix, interleaved writers vs reference writer model',
  'Well-nested write histories with supplied/wrong/omitted trailers are executed on the real X12Writer with Close() injected after every prefix (a crash-like close at an arbitrary instant) and several writers interleaved; the sink write history is compared with a reference writer model, an independent recount and a re-read with the real reader.',
  TRUST, 'DESIGN.md §4 C11')
CLAIMED['C17'] = ('exploration', 'deterministic simulation: seeded set/get call histories on Segment vs list-of-lists model; path grammar laws as per-operation invariant',
  'Call histories of set/get/get_value with every designator shape are checked call by call against an executable model (set-then-get, padding, other positions unchanged, foreign ids refused); every path used is parsed/printed/re-parsed against the documented grammar. The path half is a pure function and rides along as an invariant; the level is claimed for the history half.',
  TRUST, 'DESIGN.md §4 C17')
CLAIMED['C20'] = ('exploration', 'deterministic simulation: x12norm.main() in-process on scratch files, all option vectors, injected count faults vs reference tokeniser/recount',
  'The normaliser runs on real files by path under every option combination and destination; outputs are compared with the reference tokeniser\'s normal form, re-normalised for idempotence, and with -f the recount of the output must be free of count/HL01 defects with no other value altered.',
  TRUST, 'DESIGN.md §4 C20')
_PENDING = 'check not built yet in this round (planned, DESIGN.md §12); not a statement about applicability'
for _p in ['C02','C03','C05','C06','C07','C08','C09','C10','C12','C18','C19']:
    NA[_p] = _PENDING
NA['C13'] = 'pure stateless function of (value, type, charset, version): no stream, state, clock, schedule or fault for a simulator to control; deciding it is bounded-exhaustive enumeration against a reference recogniser, which is outside this technique family (indirectly sampled through C02/C03 value generation)'
NA['C14'] = 'pure function over a finite domain (notes x presence patterns x lengths); the property itself asks for complete enumeration, i.e. model checking / exhaustive testing, not seeded simulation (indirectly sampled through C02/C03 syntax-note faults)'
NA['C15'] = 'pure function of (node definition, value, two parameters) with no history, stream or fault dimension; needs enumeration over all map nodes x value catalogue rather than simulation (the same reference element rules are the C03 oracle at sampled sites)'
NA['C16'] = 'static consistency audit of shipped data files; nothing executes over time, no schedule or fault to inject (the independent map loader used for C02/C03 workload generation touches every selectable map and would surface unloadable or dangling definitions)'
