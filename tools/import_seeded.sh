#!/bin/bash
# usage: import_seeded.sh <worktree> <PROP> <A|B>  -- verify an agent's mutant independently in a scratch worktree and store it under /verif/seeded/
set -u
WT=$1; PROP=$2; L=$3
ID="${PROP}-$(echo $L | tr "AB" "${SUFFIXES:-ab}")"
DST=/verif/seeded/$ID
V=/tmp/verify-wt-$$
git -C /repo worktree add -q --detach $V HEAD || exit 9
cp $WT/demo$L.py $V/demo.py
sed -i "s#$WT#$V#g" $V/demo.py
cd $V
/venv/bin/python demo.py >/tmp/demo_base.out 2>&1; BASE=$?
git apply $WT/mutant$L.diff || { echo "APPLY FAILED"; git -C /repo worktree remove --force $V; exit 8; }
TESTS=$(/venv/bin/python -m pytest -q -p no:cacheprovider 2>&1 | tail -1)
/venv/bin/python demo.py >/tmp/demo_mut.out 2>&1; MUT=$?
echo "$ID base_demo_exit=$BASE tests='$TESTS' mutant_demo_exit=$MUT"
if [ $BASE -eq 0 ] && [ $MUT -ne 0 ] && echo "$TESTS" | grep -q "454 passed"; then
  mkdir -p $DST
  cp $WT/mutant$L.diff $DST/patch.diff
  sed "s#$WT#/repo#g" $WT/demo$L.py > $DST/demo.py
  /venv/bin/python - "$WT/meta.json" "$L" "$PROP" "$DST/meta.json" "$TESTS" <<'PY'
import json, sys
src, L, prop, dst, tests = sys.argv[1:6]
try: m = json.load(open(src)).get(L, {})
except Exception: m = {}
out = {'property': prop, 'breaks': prop, 'summary': m.get('summary'), 'needs_to_manifest': m.get('needs_to_manifest'), 'files': m.get('files'),
       'author': 'independent sub-agent (saw only the property text and a scratch worktree)',
       'confirmed': {'demo_on_unchanged_tree_exit': 0, 'tests_with_patch': tests, 'demo_with_patch_exit': 'non-zero',
                     'how': 'tools/import_seeded.sh: fresh scratch worktree of /repo HEAD, demo run, git apply, full pytest, demo run'}}
json.dump(out, open(dst, 'w'), indent=1)
PY
  echo "  stored in $DST"
else
  echo "  NOT KEPT"; tail -3 /tmp/demo_base.out; tail -3 /tmp/demo_mut.out
fi
cd /; git -C /repo worktree remove --force $V
