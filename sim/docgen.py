"""Map-conformant document generator, independent of pyx12 (DESIGN 3.4).

Walks a mapspec tree in position order and emits (segments, ground truth).
Nothing here imports pyx12: a loader or validator bug in pyx12 shows up as a
disagreement instead of being mirrored.
"""
import re

import mapspec
from refmodel import values as V

ENVELOPE = ('ISA', 'GS', 'ST', 'SE', 'GE', 'IEA', 'TA1')


class GenSeg(object):
    __slots__ = ('node', 'vals', 'inst', 'seg_count', 'line', 'set_index')

    def __init__(self, node, vals, inst):
        self.node = node
        self.vals = vals          # list of str (simple) or list[str] (composite)
        self.inst = inst          # tuple of (loop id, serial) from the root
        self.seg_count = None     # position in set (ST = 1)
        self.line = None          # 1-based segment ordinal in the file
        self.set_index = None

    @property
    def id(self):
        return self.node.id

    def flat(self, sub=':'):
        out = [self.node.id]
        for v in self.vals:
            out.append(sub.join(v) if isinstance(v, list) else v)
        return out

    def get(self, e, c=None):
        if e > len(self.vals):
            return None
        v = self.vals[e - 1]
        if isinstance(v, list):
            if c is None:
                return v[0] if len(v) == 1 else None
            return v[c - 1] if c <= len(v) else None
        if c is None or c == 1:
            return v
        return None


class Unsupported(Exception):
    """the map (or node) cannot be generated soundly; reported by name"""


class Ambiguous(Exception):
    """the segment cannot be emitted so that the map's own matching rule locates it at the intended node"""


class Knobs(object):
    def __init__(self, rich=0.5, maxrep=2, size_cap=300, alphabet=V.PLAIN, charset='E', structural=False):
        self.rich = rich
        self.maxrep = maxrep
        self.size_cap = size_cap
        self.alphabet = alphabet
        self.charset = charset
        self.structural = structural   # C08/C09: values ignore type/length/code constraints


class Gen(object):
    def __init__(self, rng, m, icvn, fic, vriic, knobs, tspc=None):
        self.rng = rng
        self.m = m
        self.icvn = icvn
        self.fic = fic
        self.vriic = vriic
        self.tspc = tspc
        self.k = knobs
        self.segs = []
        self.serial = {}
        self.hl = 0
        self.hl_stack = []
        self.lx = 0
        self.is837 = (m.id == '837')
        self.ambiguous = 0
        self.collisions = set()
        self.budget_hit = False
        self.set_start = 0
        self.cur_node = None
        self.skipped = set()
        self.mdir = None

    # -------------------------------------------------------------- values
    def element_value(self, el, dtype_override=None):
        rng = self.rng
        dtype = dtype_override or el.dtype
        if el.dtype is None:
            raise Unsupported('undefined data element %s at %s' % (el.data_ele, el.id))
        mn, mx = el.min_len, el.max_len
        if dtype_override:
            # qualifier-selected format: length follows the format, inside the element's bounds
            v = V.gen_member(rng, dtype_override, mn, mx)
            if v is None:
                raise Unsupported('%s cannot hold a %s value' % (el.id, dtype_override))
            return v
        codes = [c for c in el.codes if c and c == c.strip() and mn <= len(c) <= mx]
        ext = []
        if el.external and el.external in self.m.codes:
            ext = [c for c in self.m.codes[el.external] if c and c == c.strip() and mn <= len(c) <= mx]
        if el.codes or (el.external and el.external in self.m.codes):
            pool = codes if (codes and (not ext or rng.random() < 0.7)) else ext
            if not pool:
                pool = codes or ext
            if not pool:
                raise Unsupported('no usable code for %s' % el.id)
            for _ in range(20):
                v = rng.choice(pool)
                if V.is_member(v, el.dtype, self.k.charset, self.icvn) and (not el.regex or re.search(el.regex, v, re.S)):
                    return v
            raise Unsupported('no code of %s is a member of its own type' % el.id)
        if self.k.structural and dtype in ('AN', 'ID', 'B') and not el.regex:
            n = rng.choice([1, 2, 3, 5, 8])
            v = ''.join(rng.choice(self.k.alphabet) for _ in range(n))
            if v.strip(' ') == '':
                v = 'A' + v[1:]
            return v
        for _ in range(40):
            alpha = self.k.alphabet if dtype in ('AN', 'B') else V.PLAIN
            v = V.gen_member(rng, dtype, mn, mx, alpha)
            if v is None:
                raise Unsupported('%s: type %s does not fit length %s..%s' % (el.id, dtype, mn, mx))
            if el.regex and not re.search(el.regex, v, re.S):
                continue
            return v
        if el.regex:
            for cand in ('123456789', '1234567890', '12345', 'A1', '1'):
                if mn <= len(cand) <= mx and re.search(el.regex, cand, re.S):
                    return cand
        raise Unsupported('cannot satisfy regex %r at %s' % (el.regex, el.id))

    def usable(self, node):
        """can this element/composite carry a value at all?"""
        if node.usage == 'N':
            return False
        if node.kind == 'element':
            return node.dtype is not None
        return any(c.usage != 'N' and c.dtype is not None for c in node.children)

    def gen_values(self, seg):
        last = None
        for _ in range(8):
            try:
                v = self._gen_values_once(seg)
            except Unsupported as e:
                last = e
                continue
            pres = [not (x == '' or x == [''] or (isinstance(x, list) and all(y == '' for y in x))) for x in v]
            pres += [False] * (len(seg.children) - len(pres))
            ok = any(pres) and syntax_ok(seg.syntax, pres) and all(pres[i] for i, c in enumerate(seg.children) if c.usage == 'R')
            if ok:
                return v
            last = Unsupported('could not build a conformant %s' % seg.path())
        raise last

    def _gen_values_once(self, seg):
        rng = self.rng
        kids = seg.children
        n = len(kids)
        present = [False] * n
        for i, c in enumerate(kids):
            if c.usage == 'R':
                if not self.usable(c):
                    raise Unsupported('required %s of %s cannot be generated' % (c.id, seg.path()))
                present[i] = True
            elif c.usage == 'S' and self.usable(c):
                present[i] = rng.random() < self.k.rich

        def can(i):
            return 0 <= i < n and self.usable(kids[i])

        def req(i):
            return 0 <= i < n and kids[i].usage == 'R'
        for _ in range(6):
            changed = False
            for typ, pos in seg.syntax:
                idx = [p - 1 for p in pos]
                pres = [i for i in idx if i < n and present[i]]
                if typ == 'P':
                    if pres and len(pres) != len(idx):
                        if all(can(i) for i in idx):
                            for i in idx:
                                present[i] = True
                        else:
                            for i in idx:
                                if i < n and not req(i):
                                    present[i] = False
                        changed = True
                elif typ == 'R':
                    if not pres:
                        c = [i for i in idx if can(i)]
                        if c:
                            present[rng.choice(c)] = True
                            changed = True
                elif typ == 'E':
                    if len(pres) > 1:
                        keep = [i for i in pres if req(i)] or [rng.choice(pres)]
                        for i in pres:
                            if i != keep[0] and not req(i):
                                present[i] = False
                        changed = True
                elif typ == 'C':
                    if idx[0] < n and present[idx[0]] and any((i >= n or not present[i]) for i in idx[1:]):
                        if all(can(i) for i in idx[1:]):
                            for i in idx[1:]:
                                present[i] = True
                        elif not req(idx[0]):
                            present[idx[0]] = False
                        changed = True
                elif typ == 'L':
                    if idx[0] < n and present[idx[0]] and not [i for i in idx[1:] if i < n and present[i]]:
                        c = [i for i in idx[1:] if can(i)]
                        if c:
                            present[rng.choice(c)] = True
                        elif not req(idx[0]):
                            present[idx[0]] = False
                        changed = True
            if not changed:
                break
        if not any(present):
            c = [i for i in range(n) if can(i)]
            if not c:
                raise Unsupported('segment %s has no usable element' % seg.path())
            present[c[0]] = True
        if not syntax_ok(seg.syntax, present):
            raise Unsupported('syntax notes of %s cannot be satisfied together' % seg.path())
        vals = []
        for i, c in enumerate(kids):
            if not present[i]:
                vals.append('')
                continue
            if c.kind == 'composite':
                vals.append(self.gen_composite(c))
            else:
                vals.append(self.element_value(c))
        self.pair_formats(seg, vals)
        # trim trailing empties (what a writer of X12 does)
        while vals and (vals[-1] == '' or vals[-1] == ['']):
            vals.pop()
        return vals

    def gen_composite(self, c):
        rng = self.rng
        sub = []
        for sc in c.children:
            if sc.usage == 'R' and sc.dtype is None:
                raise Unsupported('required component %s undefined' % sc.id)
            if sc.usage == 'R' or (sc.usage == 'S' and sc.dtype is not None and rng.random() < self.k.rich):
                sub.append(self.element_value(sc))
            else:
                sub.append('')
        if all(x == '' for x in sub):
            first = [j for j, sc in enumerate(c.children) if sc.usage != 'N' and sc.dtype is not None]
            sub[first[0]] = self.element_value(c.children[first[0]])
        # 1250/1251 pairing inside the composite
        for j, sc in enumerate(c.children):
            if sc.data_ele == '1251' and sub[j] != '':
                q = [k for k, x in enumerate(c.children[:j]) if x.data_ele == '1250']
                if q and sub[q[-1]] in V.QUAL_TYPES:
                    sub[j] = self.element_value(sc, sub[q[-1]])
                elif q:
                    sub[j] = ''
        while len(sub) > 1 and sub[-1] == '':
            sub.pop()
        if all(x == '' for x in sub):
            raise Unsupported('composite %s came out empty' % c.id)
        return sub

    def pair_formats(self, seg, vals):
        kids = seg.children
        if seg.id == 'DTP' and len(vals) >= 3 and vals[2] != '' and isinstance(vals[2], str):
            if vals[1] in V.QUAL_TYPES:
                vals[2] = self.element_value(kids[2], vals[1])
            return
        for i, c in enumerate(kids):
            if c.kind == 'element' and c.data_ele == '1251' and i < len(vals) and vals[i] != '':
                q = [k for k, x in enumerate(kids[:i]) if x.kind == 'element' and x.data_ele == '1250']
                if q:
                    qv = vals[q[-1]] if q[-1] < len(vals) else ''
                    if qv in V.QUAL_TYPES:
                        vals[i] = self.element_value(c, qv)
                    else:
                        # format undetermined: leave the date out when it is optional
                        if c.usage != 'R':
                            vals[i] = ''

    # -------------------------------------------------------------- structure
    def count_for(self, node, forced_first):
        rng = self.rng
        mx = node.max_repeat()
        cap = max(1, min(mx, self.k.maxrep))
        over = len(self.segs) > self.k.size_cap
        if node.kind == 'loop' and node.type == 'wrapper':
            return 1            # wrappers are transparent: one pass, requiredness of the children decides
        if node.usage == 'N':
            return 0
        if forced_first:
            return 1
        if node.usage == 'R':
            if over or cap == 1:
                return 1
            return 1 + (rng.randint(0, cap - 1) if rng.random() < self.k.rich * 0.5 else 0)
        if over:
            self.budget_hit = True
            return 0
        if rng.random() < self.k.rich:
            return rng.randint(1, cap)
        return 0

    def emit(self, node, inst, vals=None):
        for attempt in range(12):
            v = vals if vals is not None else self.gen_values(node)
            self.fix_special(node, v, inst)
            g = GenSeg(node, v, inst)
            if vals is not None or self.unambiguous(g):
                break
            self.ambiguous += 1
        else:
            raise Ambiguous(node.path())
        self.segs.append(g)
        self.cur_node = node
        return g

    def unambiguous(self, g):
        """reference matcher (DESIGN A.6): from the previous node, the position-ordered outward search must arrive at g.node"""
        if self.cur_node is None or g.node.id in ('ISA', 'GS'):
            return True
        hit = ref_search(self.cur_node, g.node.id, g.get)
        if hit is g.node:
            return True
        self.collisions.add((g.node.path(), hit.path() if hit is not None else 'none'))
        return False

    def fix_special(self, node, v, inst):
        if node.id == 'HL':
            depth = len(inst)
            while self.hl_stack and self.hl_stack[-1][0] >= depth:
                self.hl_stack.pop()
            num = self.hl + 1
            while len(v) < 2:
                v.append('')
            v[0] = str(num)
            p = node.children[1] if len(node.children) > 1 else None
            if p is not None and p.usage != 'N' and self.hl_stack:
                v[1] = str(self.hl_stack[-1][1])
            elif p is not None and p.usage == 'R' and not self.hl_stack:
                v[1] = ''        # no parent exists; a required HL02 without parent cannot be conformant
                raise Unsupported('HL02 required at %s but no parent HL exists' % node.path())
            else:
                v[1] = ''
            self._pending_hl = (depth, num)
        elif node.id == 'LX' and self.is837:
            v[0] = str(self.lx + 1)
        elif node.id == 'BHT' and self.tspc and len(v) >= 2:
            v[1] = self.tspc

    def committed(self, g):
        """bookkeeping after a segment is finally emitted"""
        node = g.node
        if node.id == 'HL':
            self.hl += 1
            depth = len(g.inst)
            while self.hl_stack and self.hl_stack[-1][0] >= depth:
                self.hl_stack.pop()
            self.hl_stack.append((depth, self.hl))
        elif node.id == 'LX' and self.is837:
            self.lx += 1
        elif node.id == 'CLM' and self.is837:
            self.lx = 0

    def next_serial(self, loop, parent_inst):
        key = (parent_inst, loop.id, id(loop))
        self.serial[key] = self.serial.get(key, 0) + 1
        return self.serial[key]

    def walk_children(self, loop, inst):
        kids = [c for c in loop.children if c.kind in ('loop', 'segment')]
        if not kids:
            return
        first = kids[0]
        counts = []
        for i, c in enumerate(kids):
            if c.kind == 'segment' and c.id in ENVELOPE:
                counts.append(0)
                continue
            counts.append(self.count_for(c, forced_first=(i == 0 and c.kind == 'segment' and getattr(loop, 'type', None) != 'wrapper')))
        if getattr(loop, 'type', None) == 'wrapper' and first.kind == 'segment' and first.id not in ENVELOPE:
            # nothing of a wrapper can be located unless its first segment is there
            later = any(n > 0 and (c.kind == 'segment' or self.may_emit(c)) for c, n in zip(kids[1:], counts[1:]))
            if later and counts[0] == 0:
                if first.usage == 'N':
                    raise Unsupported('wrapper %s opens with a not-used segment' % loop.path())
                counts[0] = 1
        if first.kind == 'loop':
            # an instance must open with a child loop: make sure one is chosen before any segment child
            seg_pos = [i for i, c in enumerate(kids) if c.kind == 'segment' and counts[i] > 0]
            lim = seg_pos[0] if seg_pos else len(kids)
            if not any(counts[i] > 0 for i in range(lim) if kids[i].kind == 'loop'):
                cands = [i for i in range(lim) if kids[i].kind == 'loop' and kids[i].usage != 'N']
                if cands:
                    counts[cands[0]] = 1
                elif any(counts):
                    raise Unsupported('loop %s cannot be opened' % loop.path())
        is_wrapper = getattr(loop, 'type', None) == 'wrapper' or loop.kind == 'map'
        for i, (c, n) in enumerate(zip(kids, counts)):
            for k in range(n):
                try:
                    if c.kind == 'segment':
                        if i == 0 and k > 0 and loop.kind == 'loop':
                            # the opening segment again: by the matching rule this opens a new instance of the loop
                            inst = inst[:-1] + ((loop.id, self.next_serial(loop, inst[:-1])),)
                        g = self.emit(c, inst)
                        self.committed(g)
                    else:
                        self.loop_instance(c, inst)
                except Ambiguous as e:
                    if i == 0 and k == 0 and not is_wrapper and c.kind == 'segment':
                        raise                     # this loop instance cannot be opened: the parent decides
                    if c.usage == 'R' and k == 0 and not (c.kind == 'loop' and c.type == 'wrapper'):
                        raise Unsupported('required %s cannot be made unambiguous' % e)
                    self.skipped.add(str(e))
                    break

    def may_emit(self, loop):
        """could an instance of this loop emit a segment (wrappers may stay empty)?"""
        if getattr(loop, 'type', None) != 'wrapper':
            return True
        for c in loop.children:
            if c.kind == 'segment' and c.usage == 'R':
                return True
            if c.kind == 'loop' and c.usage == 'R' and self.may_emit(c):
                return True
        return True

    def loop_instance(self, loop, parent_inst):
        inst = parent_inst + ((loop.id, self.next_serial(loop, parent_inst)),)
        self.walk_children(loop, inst)

    # -------------------------------------------------------------- envelope
    def find(self, path):
        n = self.m
        for p in path.strip('/').split('/'):
            n = next(c for c in n.children if c.id == p)
        return n

    def envelope_values(self, node, ctl, sub_term, rep):
        keep, self.k.structural = self.k.structural, False      # envelope segments are always well formed
        keep_alpha, self.k.alphabet = self.k.alphabet, V.PLAIN
        try:
            return self._envelope_values(node, ctl, sub_term, rep)
        finally:
            self.k.structural = keep
            self.k.alphabet = keep_alpha

    def _envelope_values(self, node, ctl, sub_term, rep):
        v = self.gen_values(node)
        sid = node.id
        if sid == 'ISA':
            while len(v) < 16:
                v.append('')
            for i, c in enumerate(node.children):
                if v[i] == '':
                    v[i] = self.element_value(c)
            v[5] = 'SENDER'.ljust(15)
            v[7] = 'RECEIVER'.ljust(15)
            v[10] = rep if self.icvn == '00501' else 'U'
            v[11] = self.icvn
            v[12] = ctl
            v[15] = sub_term
        elif sid == 'GS':
            while len(v) < 8:
                v.append('')
            for i, c in enumerate(node.children[:8]):
                if v[i] == '':
                    v[i] = self.element_value(c)
            v[0] = self.fic
            v[1] = 'SENDERGS'
            v[2] = 'RECEIVERGS'
            v[5] = ctl
            v[7] = self.vriic
        elif sid == 'ST':
            while len(v) < 2:
                v.append('')
            v[1] = ctl
            if len(node.children) > 2 and node.children[2].usage != 'N' and self.icvn == '00501':
                while len(v) < 3:
                    v.append('')
                c3 = node.children[2]
                v[2] = c3.codes[0] if c3.codes else self.vriic
            else:
                del v[2:]
        return v

    def build(self, n_isa=1, n_gs=1, n_st=1, sub_term=':', rep='^', ctl_base=1):
        ctl = mapspec.load_map('x12.control.%s.xml' % self.icvn, self.mdir)
        self.ctl_isa = next(c for c in next(x for x in ctl.children if x.id == 'ISA_LOOP').children if c.id == 'ISA')
        isa_loop = self.find('/ISA_LOOP')
        gs_loop = self.find('/ISA_LOOP/GS_LOOP')
        st_loop = self.find('/ISA_LOOP/GS_LOOP/ST_LOOP')
        n = {c.id: c for c in isa_loop.children if c.kind == 'segment'}
        g = {c.id: c for c in gs_loop.children if c.kind == 'segment'}
        s = {c.id: c for c in st_loop.children if c.kind == 'segment'}
        set_index = 0
        for a in range(n_isa):
            ictl = '%09d' % (ctl_base + a)
            i_inst = (('ISA_LOOP', a + 1),)
            self.emit(n['ISA'], i_inst, self.envelope_values(self.ctl_isa, ictl, sub_term, rep))
            for b in range(n_gs):
                gctl = str(ctl_base * 10 + a * 100 + b + 1)
                g_inst = i_inst + (('GS_LOOP', b + 1),)
                self.emit(g['GS'], g_inst, self.envelope_values(g['GS'], gctl, sub_term, rep))
                for c in range(n_st):
                    sctl = '%04d' % (c + 1)
                    s_inst = g_inst + (('ST_LOOP', c + 1),)
                    set_index += 1
                    start = len(self.segs)
                    self.hl = 0
                    self.hl_stack = []
                    self.lx = 0
                    self.emit(s['ST'], s_inst, self.envelope_values(s['ST'], sctl, sub_term, rep))
                    self.walk_children(st_loop, s_inst)
                    cnt = len(self.segs) - start + 1
                    self.emit(s['SE'], s_inst, [str(cnt), sctl])
                    for k, sg in enumerate(self.segs[start:]):
                        sg.seg_count = k + 1
                        sg.set_index = set_index
                self.emit(g['GE'], g_inst, [str(n_st), gctl])
            self.emit(n['IEA'], i_inst, [str(n_gs), ictl])
        for k, sg in enumerate(self.segs):
            sg.line = k + 1
        return self.segs


def syntax_ok(syntax, present):
    n = len(present)
    for typ, pos in syntax:
        flags = [(p - 1 < n and present[p - 1]) for p in pos]
        cnt = sum(flags)
        if typ == 'P' and 0 < cnt < len(flags):
            return False
        if typ == 'R' and cnt == 0:
            return False
        if typ == 'E' and cnt > 1:
            return False
        if typ == 'C' and flags[0] and cnt < len(flags):
            return False
        if typ == 'L' and flags[0] and cnt < 2:
            return False
    return True


# ------------------------------------------------------------------ reference matcher (A.6)

def loop_matches(loop, sid, getter):
    kids = [c for c in loop.children if c.kind in ('loop', 'segment')]
    if not kids:
        return False
    first = kids[0]
    if first.kind == 'loop':
        return any(c.kind == 'loop' and loop_matches(c, sid, getter) for c in kids)
    return mapspec.seg_matches(first, sid, getter)


def descend(loop, sid, getter):
    kids = [c for c in loop.children if c.kind in ('loop', 'segment')]
    first = kids[0]
    if first.kind == 'segment' and mapspec.seg_matches(first, sid, getter):
        return first
    for c in kids:
        if c.kind == 'loop':
            r = descend(c, sid, getter) if loop_matches(c, sid, getter) else None
            if r is not None:
                return r
    return None


def ref_search(cur, sid, getter):
    """position-ordered search from the current segment node outward through the parent loops"""
    loop = cur.parent
    pos = cur.pos
    while True:
        for c in loop.children:
            if c.kind not in ('loop', 'segment') or c.pos < pos:
                continue
            if c.kind == 'segment':
                if mapspec.seg_matches(c, sid, getter):
                    return c
            elif loop_matches(c, sid, getter):
                return descend(c, sid, getter)
        if loop.kind == 'map':
            return None
        pos = loop.pos
        loop = loop.parent


# ------------------------------------------------------------------ serialisation

def to_text(segs, seg_term='~', ele_term='*', sub_term=':', eol='\n'):
    out = []
    for g in segs:
        parts = []
        for v in g.vals:
            parts.append(sub_term.join(v) if isinstance(v, list) else v)
        if g.node.id == 'ISA' and len(parts) >= 16:
            parts[15] = sub_term
        out.append(g.node.id + ele_term + ele_term.join(parts) + seg_term + eol)
    return ''.join(out)


def make(rng, entry, knobs, n_isa=1, n_gs=1, n_st=1, sub_term=':', rep='^', ctl_base=1, mdir=None):
    """entry: a dict from mapspec.selectable()"""
    m = mapspec.load_map(entry['file'], mdir)
    g = Gen(rng, m, entry['icvn'], entry['fic'], entry['vriic'], knobs, entry.get('tspc'))
    g.mdir = mdir
    g.build(n_isa, n_gs, n_st, sub_term, rep, ctl_base)
    return g
