"""Envelope-level document skeletons (no map): lists of segments
[id, e1, e2, ...] with consistent ISA/GS/ST numbering, HL trees and CLM/LX runs.
Shared by C04, C11, C20 and C07.  Does not import pyx12.
"""

BODY_IDS = ['BHT', 'NM1', 'REF', 'DTP', 'N3', 'N4', 'PER', 'DMG', 'SBR', 'PAT', 'AMT', 'QTY', 'LS', 'LE']      # LS/LE: loop brackets, counted like any segment
ALNUM = 'ABCDEFGHIJKLMNOPQRSTUVWXYZ0123456789'


def isa_seg(icvn, ctl, sub_term=':', rep='^', sender='SENDER', receiver='RECEIVER'):
    return ['ISA', '00', ' ' * 10, '00', ' ' * 10, 'ZZ', sender.ljust(15)[:15], 'ZZ', receiver.ljust(15)[:15],
            '040102', '1230', rep if icvn == '00501' else 'U', icvn, ctl, '0', 'P', sub_term]


def body_value(rng, alphabet=ALNUM):
    n = rng.choice([1, 2, 3, 5, 8])
    return ''.join(rng.choice(alphabet) for _ in range(n))


def gen_body(rng, nbody, with_hl, with_lx, alphabet=ALNUM):
    """body segments of one set, HL numbered depth-first with valid parents"""
    segs = []
    hl = 0
    chain = []     # stack of HL numbers (ancestors)
    lx = 0
    in_clm = False
    for _ in range(nbody):
        r = rng.random()
        if with_hl and r < 0.35:
            hl += 1
            # choose depth: child of current, sibling, or pop up; occasionally a new root
            if chain and rng.random() < 0.12:
                chain = []
            elif chain:
                keep = rng.randint(1, len(chain))
                chain = chain[:keep]
            parent = str(chain[-1]) if chain else ''
            segs.append(['HL', str(hl), parent, rng.choice(['20', '22', '23']), rng.choice(['0', '1'])])
            chain.append(hl)
            in_clm = False
        elif with_lx and r < 0.5:
            segs.append(['CLM', body_value(rng, alphabet), '100'])
            lx = 0
            in_clm = True
        elif with_lx and in_clm and r < 0.75:
            lx += 1
            segs.append(['LX', str(lx)])
        else:
            sid = rng.choice(BODY_IDS)
            ne = rng.choice([1, 2, 3, 4])
            segs.append([sid] + [body_value(rng, alphabet) for _ in range(ne)])
    return segs


def gen_skeleton(rng, icvn=None, max_isa=3, max_gs=3, max_st=4, max_body=8, with_hl=True, with_lx=True,
                 sub_term=':', rep='^', alphabet=ALNUM, fic='HC', vriic=None):
    """Consistent envelope: unique control numbers in canonical forms."""
    icvn = icvn or rng.choice(['00401', '00501'])
    vriic = vriic or ('004010X098A1' if icvn == '00401' else '005010X222A1')
    segs = []
    n_isa = rng.choice([1, 1, 1, 2, max_isa])
    isa_ctl = rng.randint(1, 900000000)
    for a in range(n_isa):
        ictl = '%09d' % (isa_ctl + a)
        segs.append(isa_seg(icvn, ictl, sub_term, rep))
        n_gs = rng.choice([0, 1, 1, 1, 2, max_gs]) if max_gs else 0
        gs_ctl = rng.randint(1, 9000)
        for g in range(n_gs):
            gctl = str(gs_ctl + g)
            segs.append(['GS', fic, 'SENDER', 'RECEIVER', '20040102', '1230', gctl, 'X', vriic])
            n_st = rng.choice([0, 1, 1, 2, max_st]) if max_st else 0
            st_ctl = rng.randint(1, 9000)
            for s in range(n_st):
                sctl = '%04d' % (st_ctl + s)
                segs.append(['ST', '837', sctl] + ([vriic] if icvn == '00501' else []))
                body = gen_body(rng, rng.randint(0, max_body), with_hl and rng.random() < 0.7,
                                with_lx and rng.random() < 0.6, alphabet)
                segs += body
                segs.append(['SE', str(len(body) + 2), sctl])
            segs.append(['GE', str(n_st), gctl])
        segs.append(['IEA', str(n_gs), ictl])
    return segs


def serialise(segs, seg_term='~', ele_term='*', sub_term=':', eol=''):
    out = []
    for s in segs:
        els = list(s[1:])
        if s[0] == 'ISA' and len(els) == 16:
            els[15] = sub_term
        out.append(s[0] + ele_term + ele_term.join(els) + seg_term + eol if els else s[0] + seg_term + eol)
    return ''.join(out)
