"""Shared multi-fault workload for the output-oracle properties (C05, C06, C12, C19):
a conformant document of some map, multi-set / multi-group / multi-interchange,
with 0..5 data faults (replace-type faults of the C03 catalogue) and optional
trailer count / control-number faults, envelope structure intact.
"""
import copy

import mapspec
import docgen
import docsim
import faults as F
from refmodel import values as V

HOSTILE_HTML = V.PLAIN + '<>&"\' <>&%%{}'       # markup characters, and % { } for report lines built by string formatting
HOSTILE_X12 = V.PLAIN + '~*:^~*:'


def make(rng, entry, charset='E', nfaults=None, multi=None, alphabet=V.PLAIN, fault_alphabet=None, size_cap=60,
         trailer_faults=True, kinds=None):
    """-> dict(doc, applied (list of fault descriptors, lines refer to the final doc), shape) or raises Unsupported"""
    g = docsim.draw_doc(rng, entry, size_cap=size_cap, charset=charset, multi=multi, alphabet=alphabet)
    m = mapspec.load_map(entry['file'])
    doc = F.annotate(m, F.from_gen(g.segs))
    if nfaults is None:
        nfaults = rng.choice([0, 1, 1, 2, 3, 5])
    applied = []
    meet = None
    if nfaults and kinds is None and rng.random() < 0.15:
        # two faults that meet: a required segment is missing, and the segment at which that is noticed has an element fault
        dl = [f for f in F.enumerate_faults(m, doc, rng, charset, entry['icvn'], kinds=['missing_required_seg'])
              if f['op'] == 'delete' and f.get('ctx') != 'before-SE' and not f.get('slack')]
        if dl:
            f = rng.choice(dl)
            doc, where = F.apply_fault(doc, f)
            meet = where
            applied.append(dict(f, line=where, op='delete', ele=None))
    if nfaults:
        fl = [f for f in F.enumerate_faults(m, doc, rng, charset, entry['icvn'], kinds=kinds or F.ELEMENT_KINDS, alphabet=fault_alphabet)
              if f['op'] == 'replace' and f['neutral']]
        rng.shuffle(fl)
        if meet is not None:
            fl.sort(key=lambda f: f['line'] != meet)       # stable: faults on the meeting segment first
        used = set()
        for f in fl:
            if len(applied) >= nfaults:
                break
            if f['line'] in used:
                continue
            used.add(f['line'])
            doc[f['line']]['vals'] = copy.deepcopy(f['new_vals'])
            applied.append(f)
    tfaults = []
    if trailer_faults and rng.random() < 0.3:
        # trailer defects that keep the nesting intact
        cands = [i for i, s in enumerate(doc) if s['id'] in ('SE', 'GE', 'IEA')]
        for _ in range(rng.choice([1, 1, 2])):
            i = rng.choice(cands)
            s = doc[i]
            k = rng.choice(['count_off', 'count_nonnum', 'ctl_wrong'])
            if k == 'count_off' and s['vals'][0].isdigit():
                s['vals'][0] = str(int(s['vals'][0]) + rng.choice([1, 2, -1]) if int(s['vals'][0]) > 1 else 5)
            elif k == 'count_nonnum':
                s['vals'][0] = rng.choice(['X', ''])
            elif len(s['vals']) > 1:
                s['vals'][1] = s['vals'][1][:-1] + ('7' if s['vals'][1][-1:] != '7' else '8')
            tfaults.append((i, k))
    if trailer_faults and rng.random() < 0.15:
        # a control number reused within its scope: a later set takes the ST02/SE02 of an earlier set of the same group
        groups = source_groups(doc)
        cands = [g_ for g_ in groups if len(g_['sets']) > 1]
        if cands:
            g_ = rng.choice(cands)
            j = rng.randrange(1, len(g_['sets']))
            first, later = g_['sets'][rng.randrange(0, j)], g_['sets'][j]
            ctl = first['st']['vals'][1]
            later['st']['vals'][1] = ctl
            if later['se'] is not None and len(later['se']['vals']) > 1:
                later['se']['vals'][1] = ctl
            tfaults.append((-1, 'dup_st02'))
    if trailer_faults and rng.random() < 0.1:
        # an element error on the group header itself (impossible GS04 date / over-long GS02)
        gss = [s_ for s_ in doc if s_['id'] == 'GS' and len(s_['vals']) >= 8]
        if gss:
            s_ = rng.choice(gss)
            if rng.random() < 0.5:
                s_['vals'][3] = '20041301'
            else:
                s_['vals'][1] = 'SENDERGS90123456'
            tfaults.append((-1, 'gs_element_error'))
    if trailer_faults and rng.random() < 0.12:
        # an element error on the set header/trailer themselves (ST02/SE02 too long or with an invalid character), identical in
        # both so that the control numbers still match
        groups = source_groups(doc)
        sets = [s_ for g_ in groups for s_ in g_['sets'] if s_['se'] is not None and len(s_['se']['vals']) > 1]
        if sets:
            s_ = rng.choice(sets)
            bad = rng.choice(['1234567890', 'AB\x7f1', '12'])
            s_['st']['vals'][1] = bad
            s_['se']['vals'][1] = bad
            tfaults.append((-1, 'st02_element_error'))
    if trailer_faults and rng.random() < 0.1:
        # an element error on a trailer alone, in a set / group that is otherwise in order: an element too many, or a count
        # that is the right number but written too long (the reader's own count and control-number checks stay satisfied)
        tr = [s_ for s_ in doc if s_['id'] in ('SE', 'SE', 'GE') and len(s_['vals']) >= 2 and s_['vals'][0].isdigit()]
        if tr:
            s_ = rng.choice(tr)
            if rng.random() < 0.6:
                s_['vals'] = s_['vals'][:2] + ['X1']
            else:
                s_['vals'][0] = s_['vals'][0].rjust(12, '0')
            tfaults.append((-1, 'trailer_element_error'))
    if trailer_faults and entry['icvn'] == '00501' and rng.random() < 0.08:
        # a 5010 set header without its ST03 (the acknowledgement copies ST03 when it is there)
        sts = [s_ for s_ in doc if s_['id'] == 'ST' and len(s_['vals']) >= 3]
        if sts:
            s_ = rng.choice(sts)
            s_['vals'] = s_['vals'][:2]
            tfaults.append((-1, 'st03_dropped'))
    if trailer_faults and rng.random() < 0.06:
        # a body segment that is nothing but its identifier
        body = [s_ for s_ in doc if s_['id'] not in F.ENVELOPE and s_['id'] not in ('HL', 'LX', 'BHT')]
        if body:
            rng.choice(body)['vals'] = []
            tfaults.append((-1, 'idonly_seg'))
    if trailer_faults and rng.random() < 0.05:
        # a group control number that is not a number and spells a segment id (its element errors quote it)
        gss = [k for k, s_ in enumerate(doc) if s_['id'] == 'GS' and len(s_['vals']) >= 8]
        if gss:
            k = rng.choice(gss)
            ge = next((j for j in range(k + 1, len(doc)) if doc[j]['id'] in ('GE', 'GS', 'IEA')), None)
            bad = rng.choice(['GS001', 'GE7', 'ST22'])
            doc[k]['vals'][5] = bad
            if ge is not None and doc[ge]['id'] == 'GE' and len(doc[ge]['vals']) > 1:
                doc[ge]['vals'][1] = bad
            tfaults.append((-1, 'gs06_spells_segment'))
    if trailer_faults and rng.random() < 0.1:
        # needless trailing separators on a set trailer (a reader-level segment error of the SE itself)
        ses = [s_ for s_ in doc if s_['id'] == 'SE']
        if ses:
            rng.choice(ses)['trail'] = rng.choice([1, 2])
            tfaults.append((-1, 'se_trailing_sep'))
    if trailer_faults and rng.random() < 0.1:
        # leading blanks / trailing separators on an envelope segment: reader-level errors of a segment that has no segment node
        env = [s_ for s_ in doc[1:] if s_['id'] in ('GS', 'ST', 'SE', 'GE', 'IEA', 'ISA')]
        if env:
            s_ = rng.choice(env)
            if rng.random() < 0.6 or s_['id'] == 'ISA':
                s_['lead'] = rng.choice([1, 2])
            else:
                s_['trail'] = 1
            s_['reader_error'] = True
            tfaults.append((-1, 'envelope_seg_reader_error'))
    if trailer_faults and rng.random() < 0.1:
        # interchanges from different senders in one file
        isas = [s_ for s_ in doc if s_['id'] == 'ISA' and len(s_['vals']) >= 8]
        if len(isas) > 1:
            # (sometimes wider than the 15 characters of ISA06: only the first ISA of a file has a fixed length)
            isas[-1]['vals'][5] = rng.choice(['OTHERSENDER    ', 'OTHERSENDER    ', 'OTHERSENDER0123456'])
            tfaults.append((-1, 'several_senders'))
    if trailer_faults and rng.random() < 0.06:
        # a set of another transaction type inside the group (its ST01 is not what the group's map expects)
        sts = [s_ for s_ in doc if s_['id'] == 'ST' and len(s_['vals']) >= 2]
        if sts:
            s_ = rng.choice(sts)
            s_['vals'][0] = '834' if s_['vals'][0] != '834' else '835'
            tfaults.append((-1, 'st01_foreign'))
    if trailer_faults and rng.random() < 0.05:
        # an interchange acknowledgement segment (located by the control map, outside any set) with an element in error
        ges = [k for k, s_ in enumerate(doc) if s_['id'] == 'GE' and k + 1 < len(doc) and doc[k + 1]['id'] == 'IEA']
        if ges:
            k = rng.choice(ges)
            doc.insert(k + 1, {'id': 'TA1', 'vals': ['000000001', '040102', '1230', rng.choice(['Q', 'A']), '000'], 'uid': -1})
            for f in applied:
                if f['line'] >= k + 1:
                    f['line'] += 1
            tfaults = [(j + 1 if j >= k + 1 else j, n) for j, n in tfaults]
            tfaults.append((k + 1, 'ta1_inserted'))
    if trailer_faults and rng.random() < 0.12:
        # structural damage between the envelope segments: a stray segment outside any set, or a trailer that never comes
        kind = rng.choice(['junk_gap', 'junk_gap', 'drop_se', 'drop_ge', 'drop_st'])
        want = {'junk_gap': ('ISA', 'GS', 'SE', 'GE', 'IEA'), 'drop_se': ('SE',), 'drop_ge': ('GE',), 'drop_st': ('ST',)}[kind]
        i = rng.choice([k for k, s_ in enumerate(doc) if s_['id'] in want])
        if kind == 'junk_gap':
            doc.insert(i + 1, {'id': 'ZZZ', 'vals': ['1'], 'uid': -1})
            at, d = i + 1, 1
        else:
            del doc[i]
            at, d = i, -1
        for f in applied:
            if f['line'] >= at:
                f['line'] += d
        tfaults = [(k + d if k >= at else k, n) for k, n in tfaults]
        tfaults.append((i, kind))
    return {'doc': doc, 'applied': applied, 'tfaults': tfaults, 'shape': list(g.shape), 'entry': entry}


def source_groups(doc):
    """independent reading of the envelope: [{'isa':.., 'gs': seg, 'ge': seg|None, 'sets': [{'st': seg, 'se': seg|None, 'lines': (a, b)}]}]"""
    groups = []
    isa = None
    cur = None
    st = None
    for i, s in enumerate(doc):
        sid = s['id']
        if sid == 'ISA':
            isa = s
        elif sid == 'GS':
            cur = {'isa': isa, 'gs': s, 'ge': None, 'sets': []}
            groups.append(cur)
        elif sid == 'ST' and cur is not None:
            st = {'st': s, 'se': None, 'a': i, 'b': None}
            cur['sets'].append(st)
        elif sid == 'SE' and st is not None:
            st['se'] = s
            st['b'] = i
            st = None
        elif sid == 'GE' and cur is not None:
            cur['ge'] = s
            cur = None
    return groups


def val(seg, e):
    v = seg['vals'][e - 1] if e <= len(seg['vals']) else None
    if isinstance(v, list):
        return ':'.join(v)
    return v
