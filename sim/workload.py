"""Shared multi-fault workload for the output-oracle properties (C05, C06, C12, C19):
a conformant document of some map, multi-set / multi-group / multi-interchange,
with 0..5 data faults (replace-type faults of the C03 catalogue) and optional
trailer count / control-number faults, envelope structure intact.
"""
import copy

import mapspec
import docgen
import docsim
import faults as F
from refmodel import values as V

HOSTILE_HTML = V.PLAIN + '<>&"\' <>&'
HOSTILE_X12 = V.PLAIN + '~*:^~*:'


def make(rng, entry, charset='E', nfaults=None, multi=None, alphabet=V.PLAIN, fault_alphabet=None, size_cap=60,
         trailer_faults=True, kinds=None):
    """-> dict(doc, applied (list of fault descriptors, lines refer to the final doc), shape) or raises Unsupported"""
    g = docsim.draw_doc(rng, entry, size_cap=size_cap, charset=charset, multi=multi, alphabet=alphabet)
    m = mapspec.load_map(entry['file'])
    doc = F.annotate(m, F.from_gen(g.segs))
    if nfaults is None:
        nfaults = rng.choice([0, 1, 1, 2, 3, 5])
    applied = []
    if nfaults:
        fl = [f for f in F.enumerate_faults(m, doc, rng, charset, entry['icvn'], kinds=kinds or F.ELEMENT_KINDS, alphabet=fault_alphabet)
              if f['op'] == 'replace' and f['neutral']]
        rng.shuffle(fl)
        used = set()
        for f in fl:
            if len(applied) >= nfaults:
                break
            if f['line'] in used:
                continue
            used.add(f['line'])
            doc[f['line']]['vals'] = copy.deepcopy(f['new_vals'])
            applied.append(f)
    tfaults = []
    if trailer_faults and rng.random() < 0.3:
        # trailer defects that keep the nesting intact
        cands = [i for i, s in enumerate(doc) if s['id'] in ('SE', 'GE', 'IEA')]
        for _ in range(rng.choice([1, 1, 2])):
            i = rng.choice(cands)
            s = doc[i]
            k = rng.choice(['count_off', 'count_nonnum', 'ctl_wrong'])
            if k == 'count_off' and s['vals'][0].isdigit():
                s['vals'][0] = str(int(s['vals'][0]) + rng.choice([1, 2, -1]) if int(s['vals'][0]) > 1 else 5)
            elif k == 'count_nonnum':
                s['vals'][0] = rng.choice(['X', ''])
            elif len(s['vals']) > 1:
                s['vals'][1] = s['vals'][1][:-1] + ('7' if s['vals'][1][-1:] != '7' else '8')
            tfaults.append((i, k))
    return {'doc': doc, 'applied': applied, 'tfaults': tfaults, 'shape': list(g.shape), 'entry': entry}


def source_groups(doc):
    """independent reading of the envelope: [{'isa':.., 'gs': seg, 'ge': seg|None, 'sets': [{'st': seg, 'se': seg|None, 'lines': (a, b)}]}]"""
    groups = []
    isa = None
    cur = None
    st = None
    for i, s in enumerate(doc):
        sid = s['id']
        if sid == 'ISA':
            isa = s
        elif sid == 'GS':
            cur = {'isa': isa, 'gs': s, 'ge': None, 'sets': []}
            groups.append(cur)
        elif sid == 'ST' and cur is not None:
            st = {'st': s, 'se': None, 'a': i, 'b': None}
            cur['sets'].append(st)
        elif sid == 'SE' and st is not None:
            st['se'] = s
            st['b'] = i
            st = None
        elif sid == 'GE' and cur is not None:
            cur['ge'] = s
            cur = None
    return groups


def val(seg, e):
    v = seg['vals'][e - 1] if e <= len(seg['vals']) else None
    if isinstance(v, list):
        return ':'.join(v)
    return v
