"""Seams: everything nondeterministic that pyx12 touches is reached through
objects of this module.  No change to /repo is needed: streams are passed as
arguments; clock, PRNG, refill-buffer size and the error-tree tap are module
attributes replaced for the duration of one simulated operation.
"""
import contextlib
import io
import logging
import os
import sys

REPO = os.environ.get('PYX12_REPO', '/repo')


def import_pyx12():
    """Import pyx12 from the tree under test (PYX12_REPO, default /repo) and
    assert that is where it came from."""
    if REPO not in sys.path:
        sys.path.insert(0, REPO)
    import warnings
    warnings.simplefilter('ignore')
    import pyx12
    root = os.path.realpath(os.path.dirname(os.path.dirname(pyx12.__file__)))
    if root != os.path.realpath(REPO):
        raise RuntimeError('pyx12 imported from %s, expected %s' % (root, REPO))
    quiet_logging()
    return pyx12


def quiet_logging():
    logging.disable(logging.CRITICAL)
    lg = logging.getLogger('pyx12')
    if not any(isinstance(h, logging.NullHandler) for h in lg.handlers):
        lg.addHandler(logging.NullHandler())


class LogTap(logging.Handler):
    """Records what pyx12 reports through its loggers during one operation (the log is a report channel of its own:
    every error the engine files is also logged).  Logging stays globally disabled outside the context."""

    def __init__(self):
        logging.Handler.__init__(self, logging.ERROR)
        self.records = []

    def emit(self, record):
        try:
            self.records.append((record.name, record.getMessage()))
        except Exception:
            self.records.append((record.name, str(record.msg)))

    def patched(self):
        tap = self

        class _Ctx(object):
            def __enter__(self_):
                self_.lg = logging.getLogger('pyx12')
                self_.disable = logging.root.manager.disable
                self_.propagate = self_.lg.propagate
                logging.disable(logging.NOTSET)
                self_.lg.propagate = False
                self_.lg.addHandler(tap)
                return tap

            def __exit__(self_, *a):
                self_.lg.removeHandler(tap)
                self_.lg.propagate = self_.propagate
                logging.disable(self_.disable)
                return False
        return _Ctx()

    def engine_errors(self):
        return [m for n, m in self.records if n == 'pyx12.error_handler']


def drop_root_handlers(keep=()):
    """pyx12.scripts.*.main() adds a root StreamHandler per call; remove them."""
    root = logging.getLogger()
    for h in list(root.handlers):
        if h not in keep:
            root.removeHandler(h)


# ------------------------------------------------------------------ sources

class Plan(object):
    """How a simulated device chunks its reads.  A plan is a JSON-able dict:
      {'kind': 'exact'}                       return what was asked for
      {'kind': 'fixed', 'k': 7}               at most k per read
      {'kind': 'sizes', 'sizes': [...], 'tail': 'exact'|k}   i-th read at most sizes[i]
      {'kind': 'cuts', 'cuts': [...], 'tail': 'exact'|k}     a read never crosses a cut offset
    Short reads are legal for io.TextIOBase.read / RawIOBase.readinto."""

    def __init__(self, plan):
        self.p = plan or {'kind': 'exact'}
        self.kind = self.p.get('kind', 'exact')
        self.i = 0
        self.cuts = sorted(set(self.p.get('cuts', []))) if self.kind == 'cuts' else []
        self.ci = 0

    def size(self, pos, n):
        """number of units to hand out for a request of n at offset pos (>=1)"""
        kind = self.kind
        if kind == 'exact':
            k = n
        elif kind == 'fixed':
            k = self.p['k']
        elif kind == 'sizes':
            sizes = self.p['sizes']
            if self.i < len(sizes):
                k = sizes[self.i]
            else:
                t = self.p.get('tail', 'exact')
                k = n if t == 'exact' else int(t)
        elif kind == 'cuts':
            while self.ci < len(self.cuts) and self.cuts[self.ci] <= pos:
                self.ci += 1
            t = self.p.get('tail', 'exact')
            k = n if t == 'exact' else int(t)
            if self.ci < len(self.cuts):
                k = min(k, self.cuts[self.ci] - pos)
        else:
            raise ValueError('unknown plan kind %r' % kind)
        self.i += 1
        return max(1, min(n, k))


class SimSource(object):
    """Text stream driven by a chunk Plan; `eof` places end of input at any
    offset (upstream writer crashed / file truncated)."""

    def __init__(self, text, plan=None, eof=None, log=None, max_reads=None):
        self.text = text if eof is None else text[:eof]
        self.pos = 0
        self.plan = Plan(plan)
        self.closed = False
        self.log = log
        self.reads = 0
        self.short_reads = 0
        self.max_reads = max_reads if max_reads is not None else 8 * len(self.text) + 64
        self.name = '<SimSource>'

    def read(self, n=-1):
        self.reads += 1
        if self.reads > self.max_reads:
            raise SimStall('read budget exceeded: %d reads' % self.reads)
        if n is None or n < 0:
            n = len(self.text) - self.pos
        k = self.plan.size(self.pos, n) if n > 0 else 0
        out = self.text[self.pos:self.pos + k]
        self.pos += len(out)
        if 0 < len(out) < n and self.pos < len(self.text):
            self.short_reads += 1
        if self.log is not None:
            self.log.ev('read', n, len(out))
        return out

    def readable(self):
        return True

    def close(self):
        self.closed = True


class SimStall(Exception):
    """The code under test kept reading without consuming: a livelock."""


class SimRawIO(io.RawIOBase):
    """Raw byte device with planned short readinto(); wrapped by the *real*
    io.BufferedReader / io.TextIOWrapper so the genuine CPython stack sits
    between the simulated device and pyx12."""

    def __init__(self, data, plan, log=None):
        io.RawIOBase.__init__(self)
        self.data = data
        self.pos = 0
        self.plan = Plan(plan)
        self.log = log
        self.short_reads = 0

    def readable(self):
        return True

    def readinto(self, b):
        n = len(b)
        if n == 0:
            return 0
        k = self.plan.size(self.pos, n)
        chunk = self.data[self.pos:self.pos + k]
        b[:len(chunk)] = chunk
        self.pos += len(chunk)
        if 0 < len(chunk) < n and self.pos < len(self.data):
            self.short_reads += 1
        if self.log is not None:
            self.log.ev('readinto', n, len(chunk))
        return len(chunk)


def text_over_raw(text, plan, log=None, buffer_size=64):
    raw = SimRawIO(text.encode('latin-1'), plan, log)
    return io.TextIOWrapper(io.BufferedReader(raw, buffer_size=buffer_size), encoding='latin-1', newline='')


class SimSink(object):
    """Write-only text stream that records each write() with its event number.
    No write faults are injected (no property quantifies over failing sinks)."""

    def __init__(self, name, log=None):
        self.name = name
        self.writes = []
        self.log = log
        self.closed = False
        self.encoding = 'ascii'

    def write(self, s):
        if not isinstance(s, str):
            raise TypeError('SimSink.write expects str, got %r' % type(s))
        self.writes.append(s)
        if self.log is not None:
            self.log.ev('write', self.name, len(s))
        return len(s)

    def flush(self):
        pass

    def close(self):
        self.closed = True

    def getvalue(self):
        return ''.join(self.writes)


# ------------------------------------------------------------------ clock / prng

class SimClock(object):
    """Scripted wall clock.  `script` is a list of float epoch instants; the
    i-th clock read returns script[min(i, last)].  Replaces time.time,
    time.localtime, time.gmtime, time.strftime (when called without an explicit
    tuple) for the duration of `patched()`."""

    def __init__(self, script, log=None):
        import time as _t
        self._t = _t
        self._real = {k: getattr(_t, k) for k in ('time', 'localtime', 'gmtime', 'strftime')}
        self.script = list(script) or [1000000000.0]
        self.i = 0
        self.log = log
        self.handed = []

    def _next(self):
        v = self.script[min(self.i, len(self.script) - 1)]
        self.i += 1
        self.handed.append(v)
        if self.log is not None:
            self.log.ev('clock', v)
        return v

    def time(self):
        return self._next()

    def localtime(self, secs=None):
        # use gmtime so the result does not depend on the sandbox TZ
        return self._real['gmtime'](self._next() if secs is None else secs)

    def gmtime(self, secs=None):
        return self._real['gmtime'](self._next() if secs is None else secs)

    def strftime(self, fmt, t=None):
        if t is None:
            t = self._real['gmtime'](self._next())
        return self._real['strftime'](fmt, t)

    def span(self):
        if not self.handed:
            return 0.0
        return max(self.handed) - min(self.handed)

    @contextlib.contextmanager
    def patched(self):
        t = self._t
        for k in self._real:
            setattr(t, k, getattr(self, k))
        try:
            yield self
        finally:
            for k, v in self._real.items():
                setattr(t, k, v)


class SimRandom(object):
    """Scripted replacement for random.randint (used by error_999 for control
    numbers), and reseeds the global generator so earlier callers' state is a
    controlled variable."""

    def __init__(self, values, reseed=0, log=None):
        import random as _r
        self._r = _r
        self.values = list(values) or [123456789]
        self.i = 0
        self.reseed = reseed
        self.log = log
        self.handed = []

    def randint(self, a, b):
        v = self.values[min(self.i, len(self.values) - 1)]
        self.i += 1
        v = a + (v % (b - a + 1))
        self.handed.append(v)
        if self.log is not None:
            self.log.ev('randint', a, b, v)
        return v

    @contextlib.contextmanager
    def patched(self):
        real = self._r.randint
        state = self._r.getstate()
        self._r.seed(self.reseed)
        self._r.randint = self.randint
        try:
            yield self
        finally:
            self._r.randint = real
            self._r.setstate(state)


# ------------------------------------------------------------------ knobs

@contextlib.contextmanager
def bufsize(n):
    """buggify knob: the refill size of RawX12File (shipped value 8192)."""
    import pyx12.rawx12file as m
    old = m.DEFAULT_BUFSIZE
    m.DEFAULT_BUFSIZE = n
    try:
        yield
    finally:
        m.DEFAULT_BUFSIZE = old


# ------------------------------------------------------------------ error tap

class ErrTap(object):
    """Replaces pyx12.error_handler.err_handler by a recording subclass so the
    error tree built inside x12n_document can be inspected afterwards.  The
    subclass adds no behaviour."""

    def __init__(self):
        self.handlers = []

    @contextlib.contextmanager
    def patched(self):
        import pyx12.error_handler as eh
        tap = self
        base = eh.err_handler

        class tapped(base):
            def __init__(self, *a, **k):
                base.__init__(self, *a, **k)
                tap.handlers.append(self)
        tapped.__name__ = 'err_handler'
        eh.err_handler = tapped
        try:
            yield self
        finally:
            eh.err_handler = base

    def last(self):
        return self.handlers[-1] if self.handlers else None

    def first(self):
        """the handler created by the validation this tap was installed for (a re-entrant validation creates later ones)"""
        return self.handlers[0] if self.handlers else None
