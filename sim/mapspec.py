"""Independent loader of the shipped map XML files (both schema styles), the
map index, data elements and external code sets.  Uses only ElementTree; no
pyx12 module is imported: the XML files are specification *data*.
"""
import os
import re
import xml.etree.ElementTree as ET

MAXINT = 2147483647
_cache = {}


def map_dir(repo=None):
    repo = repo or os.environ.get('PYX12_REPO', '/repo')
    return os.path.join(repo, 'pyx12', 'map')


def _attr(e, name):
    v = e.get(name)
    if v:
        return v
    return e.findtext(name)


class Node(object):
    kind = '?'

    def __init__(self):
        self.id = None
        self.name = None
        self.usage = None
        self.pos = None
        self.parent = None
        self.children = []

    def path(self):
        p = []
        n = self
        while n is not None and n.kind != 'map':
            p.append(n.id)
            n = n.parent
        return '/' + '/'.join(reversed(p))

    def is_loop(self):
        return self.kind == 'loop'

    def is_segment(self):
        return self.kind == 'segment'


class Map(Node):
    kind = 'map'


class Loop(Node):
    kind = 'loop'

    def max_repeat(self):
        if self.repeat is None or self.repeat in ('>1', '&gt;1'):
            return MAXINT
        return int(self.repeat)

    def first_segment(self):
        """the segment that opens an instance (recursively through leading child loops)"""
        if not self.children:
            return None
        c = self.children[0]
        return c if c.kind == 'segment' else c.first_segment()


class Segment(Node):
    kind = 'segment'

    def max_repeat(self):
        if self.max_use is None or self.max_use == '>1':
            return MAXINT
        return int(self.max_use)


class Element(Node):
    kind = 'element'


class Composite(Node):
    kind = 'composite'


def _load_element(e, parent, root):
    n = Element()
    n.id = e.get('xid')
    n.parent = parent
    n.data_ele = _attr(e, 'data_ele')
    n.usage = _attr(e, 'usage')
    n.name = _attr(e, 'name')
    n.seq = int(_attr(e, 'seq'))
    n.regex = e.findtext('regex') or None
    n.codes = []
    n.external = None
    v = e.find('valid_codes')
    if v is not None:
        n.external = v.get('external')
        n.codes = [(c.text or '').strip() for c in v.findall('code')]      # a code is its text; blanks around it in the map file are layout
    de = root.dataele.get(n.data_ele)
    n.dtype = de['type'] if de else None
    n.min_len = de['min'] if de else None
    n.max_len = de['max'] if de else None
    return n


def _load_composite(e, parent, root):
    n = Composite()
    n.id = e.get('xid')
    n.parent = parent
    n.data_ele = _attr(e, 'data_ele')
    n.usage = _attr(e, 'usage')
    n.name = _attr(e, 'name')
    n.seq = int(_attr(e, 'seq'))
    n.children = [_load_element(c, n, root) for c in e.findall('element')]
    n.children.sort(key=lambda c: c.seq)
    return n


def _load_segment(e, parent, root, order):
    n = Segment()
    n.id = e.get('xid')
    n.parent = parent
    n.name = _attr(e, 'name')
    n.usage = _attr(e, 'usage')
    n.pos = int(_attr(e, 'pos'))
    n.max_use = _attr(e, 'max_use')
    n.order = order
    n.syntax = []
    for s in e.findall('syntax'):
        t = (s.text or '').strip()
        if t and t[0] in 'PRCLE':
            n.syntax.append((t[0], [int(t[i:i + 2]) for i in range(1, len(t) - 1, 2)]))
    kids = []
    for c in e:
        if c.tag == 'element':
            kids.append(_load_element(c, n, root))
        elif c.tag == 'composite':
            kids.append(_load_composite(c, n, root))
    kids.sort(key=lambda c: c.seq)
    n.children = kids
    return n


def _load_loop(e, parent, root, order):
    n = Loop()
    n.id = e.get('xid')
    n.parent = parent
    n.type = e.get('type')
    n.name = _attr(e, 'name')
    n.usage = _attr(e, 'usage')
    n.pos = int(_attr(e, 'pos'))
    n.repeat = _attr(e, 'repeat')
    n.order = order
    _load_children(e, n, root)
    return n


def _load_children(e, n, root):
    kids = []
    for i, c in enumerate(e):
        if c.tag == 'loop':
            kids.append(_load_loop(c, n, root, i))
        elif c.tag == 'segment':
            kids.append(_load_segment(c, n, root, i))
    # position order; same position: loops before segments (how the walker's position table is built), then file order
    kids.sort(key=lambda c: (c.pos, 0 if c.kind == 'loop' else 1, c.order))
    n.children = kids
    n.file_order_violations = sum(1 for a, b in zip(kids, kids[1:]) if a.pos == b.pos and a.kind != b.kind)


def load_dataele(mdir=None):
    mdir = mdir or map_dir()
    key = ('dataele', mdir)
    if key not in _cache:
        d = {}
        for e in ET.parse(os.path.join(mdir, 'dataele.xml')).iter('data_ele'):
            d[e.get('ele_num')] = {'type': e.get('data_type'), 'min': int(e.get('min_len')), 'max': int(e.get('max_len')),
                                   'name': e.get('name')}
        _cache[key] = d
    return _cache[key]


def load_codes(mdir=None):
    mdir = mdir or map_dir()
    key = ('codes', mdir)
    if key not in _cache:
        d = {}
        for cs in ET.parse(os.path.join(mdir, 'codes.xml')).iter('codeset'):
            d[cs.findtext('id')] = [c.text for c in cs.iterfind('version/code')]
        _cache[key] = d
    return _cache[key]


def load_index(mdir=None):
    """-> list of dict(icvn, vriic, fic, tspc, file, abbr) in file order"""
    mdir = mdir or map_dir()
    key = ('index', mdir)
    if key not in _cache:
        out = []
        for v in ET.parse(os.path.join(mdir, 'maps.xml')).iter('version'):
            for m in v.findall('map'):
                out.append({'icvn': v.get('icvn'), 'vriic': m.get('vriic'), 'fic': m.get('fic'), 'tspc': m.get('tspc'),
                            'file': m.text, 'abbr': m.get('abbr')})
        _cache[key] = out
    return _cache[key]


def lookup(icvn, vriic, fic, tspc=None, mdir=None):
    for a in load_index(mdir):
        if not a['fic']:
            continue          # the entry of the control map itself selects no transaction map
        if a['icvn'] == icvn and a['vriic'] == vriic and a['fic'] == fic and (tspc is None or a['tspc'] == tspc):
            return a['file']
    return None


def load_map(fname, mdir=None):
    mdir = mdir or map_dir()
    key = ('map', mdir, fname)
    if key not in _cache:
        root_e = ET.parse(os.path.join(mdir, fname)).getroot()
        m = Map()
        m.id = root_e.get('xid')
        m.file = fname
        m.dataele = load_dataele(mdir)
        m.codes = load_codes(mdir)
        _load_children(root_e, m, m)
        m.by_uid = {}
        for i, n in enumerate(walk(m)):
            n.uid = i
            m.by_uid[i] = n
        _cache[key] = m
    return _cache[key]


def selectable(mdir=None):
    """distinct (icvn, vriic, fic, tspc, file) a document can select, for the versions the reader accepts;
    one entry per distinct file and icvn, excluding the control maps"""
    seen = set()
    out = []
    for a in load_index(mdir):
        if a['icvn'] not in ('00401', '00501') or not a['fic']:
            continue
        k = (a['icvn'], a['file'])
        if k in seen:
            continue
        seen.add(k)
        out.append(a)
    return out


def walk(node):
    yield node
    for c in node.children:
        if c.kind in ('loop', 'segment'):
            for x in walk(c):
                yield x


# ------------------------------------------------------------------ matching rule (DESIGN A.6)

def qualifiers(seg):
    """-> list of ((ele, comp), codes): the values that take part in matching this segment node"""
    ch = seg.children
    out = []
    if not ch:
        return out
    c0 = ch[0]
    if c0.kind == 'element' and c0.dtype == 'ID' and c0.usage == 'R' and c0.codes:
        out.append(((1, None), c0.codes))
    if seg.id == 'ENT' and len(ch) > 1 and ch[1].kind == 'element' and ch[1].dtype == 'ID' and ch[1].codes:
        out.append(((2, None), ch[1].codes))
    if seg.id == 'CTX' and c0.kind == 'composite' and c0.children and c0.children[0].dtype == 'AN' and c0.children[0].codes:
        out.append(((1, 1), c0.children[0].codes))
    if c0.kind == 'composite' and c0.children and c0.children[0].dtype == 'ID' and c0.children[0].codes:
        out.append(((1, 1), c0.children[0].codes))
    if seg.id == 'HL' and len(ch) > 2 and ch[2].kind == 'element' and ch[2].codes:
        out.append(((3, None), ch[2].codes))
    return out


def seg_matches(node, sid, getter):
    """getter(ele, comp) -> value or None"""
    if node.id != sid:
        return False
    for (e, c), codes in qualifiers(node):
        if getter(e, c) not in codes:
            return False
    return True
