#!/venv/bin/python
"""setup_cmd: nothing to build; verify the interpreter sees pyx12 from /repo."""
import os, sys
sys.path.insert(0, os.path.dirname(os.path.abspath(__file__)))
import seams
p = seams.import_pyx12()
print('pyx12 from', p.__file__, 'python', sys.version.split()[0])
