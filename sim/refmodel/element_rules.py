"""Reference element / composite / segment rules (DESIGN A.4, A.5): the set of
error codes a segment's values imply under the map definition.  No pyx12 import.

segment_errors(node, vals, charset, icvn, codes) -> set of (ele_pos, comp_pos|None, code)
  vals: list of element values, each a str (simple) or list[str] (components)
  code '*' means "an error, code not pinned" (not-used).
"""
import re

from refmodel import values as V


def present(v):
    if isinstance(v, list):
        return any(x != '' for x in v)
    return v is not None and v != ''


def syntax_violated(typ, pos, flags):
    f = [(p - 1 < len(flags) and flags[p - 1]) for p in pos]
    cnt = sum(f)
    if typ == 'P':
        return 0 < cnt < len(f)
    if typ == 'R':
        return cnt == 0
    if typ == 'E':
        return cnt > 1
    if typ == 'C':
        return f[0] and cnt < len(f)
    if typ == 'L':
        return f[0] and cnt < 2
    return False


def element_errors(el, v, charset, icvn, codesets, fmt_types=None, in_required_composite=None, composite_present=False):
    """-> (set of codes, dontcare flag).  el: mapspec.Element.  v: str ('' = absent)."""
    out = set()
    if v is None or v == '':
        if el.usage == 'R':
            is_comp = el.parent.kind == 'composite'
            if (not is_comp) or in_required_composite or composite_present:
                out.add('1')
        return out, False
    if el.usage == 'N':
        return {'*'}, False
    dtype = el.dtype
    n = V.nlen(v, dtype)
    if n < el.min_len:
        out.add('4')
    if n > el.max_len:
        out.add('5')
    if any(c in V.CONTROL for c in v):
        out.add('6')
        return out, True
    if dtype in ('AN', 'ID') and v.endswith(' ') and len(v.rstrip(' ')) >= el.min_len:
        out.add('6')
    has_list = bool(el.codes) or (el.external is not None)
    if has_list:
        ok = v in el.codes
        if el.external is not None and v in codesets.get(el.external, []):
            ok = True
        if not ok:
            out.add('7')
    if not V.is_member(v, dtype, charset, icvn):
        out.add('8' if dtype in V.DATE_TYPES else ('9' if dtype == 'TM' else '6'))
    if fmt_types:
        if not any(V.is_member(v, t, charset, icvn) for t in fmt_types):
            out.add('9' if 'TM' in fmt_types else '8')
    if el.regex and not re.search(el.regex, v, re.S):
        out.add('7')
    return out, False


def segment_errors(node, vals, charset, icvn, codesets):
    """-> (errors, dontcare_positions, syntax): errors is a set of (ele_pos, comp_pos, code); syntax is a list of
    (code, positions-mentioned) for violated notes (their element position is not pinned)."""
    errs = set()
    dontcare = set()
    kids = node.children
    if len(vals) > len(kids):
        errs.add((len(kids) + 1, None, '3'))
    fmt = None
    type_list = []
    for i, c in enumerate(kids):
        v = vals[i] if i < len(vals) else ''
        if c.kind == 'composite':
            comps = v if isinstance(v, list) else ([v] if v != '' else [])
            cpres = any(x != '' for x in comps)
            if not cpres:
                if c.usage == 'R':
                    errs.add((i + 1, None, '2'))
                continue
            if c.usage == 'N':
                errs.add((i + 1, None, '*'))
                continue
            if len(comps) > len(c.children):
                errs.add((i + 1, None, '3'))
            q = None
            for j, sc in enumerate(c.children):
                sv = comps[j] if j < len(comps) else ''
                ft = None
                if sc.data_ele == '1250' and sv:
                    q = sv
                if sc.data_ele == '1251':
                    prev = [x for x in c.children[:j] if x.data_ele == '1250']
                    if prev:
                        ft = [t for t in prev[-1].codes] or None
                e, dc = element_errors(sc, sv, charset, icvn, codesets, ft, c.usage == 'R', True)
                for code in e:
                    errs.add((i + 1, j + 1, code))
                if dc:
                    dontcare.add((i + 1, j + 1))
        else:
            sv = v if isinstance(v, str) else (v[0] if v else '')
            if isinstance(v, list) and len(v) > 1:
                errs.add((i + 1, None, '6'))     # a composite where a simple element is defined
                continue
            ft = None
            if node.id == 'DTP' and i == 2:
                q = vals[1] if len(vals) > 1 and isinstance(vals[1], str) else ''
                if q in V.QUAL_TYPES:
                    ft = [q]
            elif c.data_ele == '1251':
                prev = [x for x in kids[:i] if x.kind == 'element' and x.data_ele == '1250']
                if prev:
                    ft = []
                    for x in prev:
                        ft += x.codes
                    ft = ft or None
            e, dc = element_errors(c, sv, charset, icvn, codesets, ft)
            for code in e:
                errs.add((i + 1, None, code))
            if dc:
                dontcare.add((i + 1, None))
    flags = [present(vals[i]) if i < len(vals) else False for i in range(max(len(kids), len(vals)))]
    syn = []
    for typ, pos in node.syntax:
        if syntax_violated(typ, pos, flags):
            syn.append(('10' if typ == 'E' else '2', list(pos)))
    return errs, dontcare, syn
