"""Parser of 997 / 999 acknowledgement text into a plain structure.
Built on the reference tokeniser; does not import pyx12.
"""
from refmodel import tokenise as T


class AckError(Exception):
    pass


class Ack(object):
    def __init__(self):
        self.tokens = None
        self.isa = None
        self.gs = None
        self.sets = []      # one per acknowledged functional group (ST..SE)
        self.ge = None
        self.ta1 = None
        self.iea = None
        self.kind = None    # '997' / '999'
        self.stray = []     # segments found where the layout does not expect them


def _v(seg, e, c=None):
    x = seg.get(e, c)
    return x


def parse(text):
    a = Ack()
    tk = T.tokenise(text)      # raises NotX12
    a.tokens = tk
    cur_set = None
    cur_tx = None
    cur_seg = None
    for s in tk.segs:
        sid = s.id
        if sid == 'ISA':
            a.isa = s
        elif sid == 'GS':
            a.gs = s
        elif sid == 'ST':
            cur_set = {'st': s, 'ak1': None, 'tx': [], 'ak9': None, 'se': None, 'nseg': 1}
            a.kind = _v(s, 1)
            a.sets.append(cur_set)
            cur_tx = cur_seg = None
            continue
        elif sid == 'SE':
            if cur_set is None:
                a.stray.append(s)
            else:
                cur_set['se'] = s
                cur_set['nseg'] += 1
            cur_set = None
            continue
        elif sid == 'GE':
            a.ge = s
        elif sid == 'TA1':
            a.ta1 = s
        elif sid == 'IEA':
            a.iea = s
        elif cur_set is None:
            a.stray.append(s)
        else:
            if sid == 'AK1':
                cur_set['ak1'] = s
            elif sid == 'AK2':
                cur_tx = {'ak2': s, 'segs': [], 'ak5': None}
                cur_set['tx'].append(cur_tx)
                cur_seg = None
            elif sid in ('AK3', 'IK3'):
                if cur_tx is None:
                    a.stray.append(s)
                else:
                    cur_seg = {'seg': s, 'eles': []}
                    cur_tx['segs'].append(cur_seg)
            elif sid in ('AK4', 'IK4'):
                if cur_seg is None:
                    # element error without a segment line: keep it, attached to the transaction
                    if cur_tx is None:
                        a.stray.append(s)
                    else:
                        cur_seg = {'seg': None, 'eles': [s]}
                        cur_tx['segs'].append(cur_seg)
                else:
                    cur_seg['eles'].append(s)
            elif sid in ('AK5', 'IK5'):
                if cur_tx is None:
                    a.stray.append(s)
                else:
                    cur_tx['ak5'] = s
                cur_tx = cur_seg = None
            elif sid == 'AK9':
                cur_set['ak9'] = s
            else:
                a.stray.append(s)
        if cur_set is not None and sid not in ('ISA', 'GS', 'GE', 'IEA', 'TA1'):
            cur_set['nseg'] += 1
    return a


def body_segments(text):
    """all AK*/IK*/TA1 segments in order as lists (for C12 / C18 body equality)"""
    tk = T.tokenise(text)
    return [[s.id] + s.trimmed() for s in tk.segs if s.id[:2] in ('AK', 'IK') or s.id in ('TA1', 'CTX')]
