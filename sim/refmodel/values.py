"""Reference X12 value languages (DESIGN A.3): recognisers and generators of
members / non-members.  Does not import pyx12.
"""
import re

BASIC = set('ABCDEFGHIJKLMNOPQRSTUVWXYZ0123456789!"&\'()*+,-./:;?= ')
EXT = BASIC | set('abcdefghijklmnopqrstuvwxyz%~@[]_{}\\|<>#$')
EXT5 = EXT | set('^`')
CONTROL = set(chr(c) for c in (0x07, 0x09, 0x0A, 0x0B, 0x0C, 0x0D, 0x1C, 0x1D, 0x1E, 0x1F, 1, 2, 3, 4, 5, 6, 0x11, 0x12, 0x13, 0x14,
                               0x15, 0x16, 0x17))
DATE_TYPES = ('D8', 'D6', 'DT', 'RD8')
QUAL_TYPES = ('RD8', 'D8', 'D6', 'DT', 'TM')


def charset(cs, icvn):
    if cs == 'B':
        return BASIC
    return EXT5 if icvn == '00501' else EXT


def _leap(y):
    return y % 4 == 0 and (y % 100 != 0 or y % 400 == 0)


def _mdays(y, m):
    if m in (1, 3, 5, 7, 8, 10, 12):
        return 31
    if m in (4, 6, 9, 11):
        return 30
    return 29 if _leap(y) else 28


def is_d8(v):
    if not re.match(r'^[0-9]{8}$', v):
        return False
    y, m, d = int(v[:4]), int(v[4:6]), int(v[6:8])
    return y >= 1800 and 1 <= m <= 12 and 1 <= d <= _mdays(y, m)


def is_d6(v):
    if not re.match(r'^[0-9]{6}$', v):
        return False
    return is_d8(('20' if int(v[:2]) < 50 else '19') + v)


def is_tm(v):
    if not re.match(r'^([0-9]{4}|[0-9]{6}|[0-9]{7}|[0-9]{8})$', v):
        return False
    if int(v[:2]) > 23 or int(v[2:4]) > 59:
        return False
    if len(v) >= 6 and int(v[4:6]) > 59:
        return False
    return True


def is_member(v, dtype, cs='E', icvn='00401'):
    if dtype is None:
        return True
    if dtype[0] == 'N':
        return re.match(r'^-?[0-9]+$', v) is not None
    if dtype == 'R':
        return re.match(r'^-?([0-9]+(\.[0-9]+)?|\.[0-9]+)$', v) is not None
    if dtype in ('AN', 'ID'):
        return all(c in charset(cs, icvn) for c in v)
    if dtype == 'D8':
        return is_d8(v)
    if dtype == 'D6':
        return is_d6(v)
    if dtype == 'DT':
        return is_d8(v) or is_d6(v) or (len(v) == 12 and is_d8(v[:8]) and is_tm(v[8:]))
    if dtype == 'RD8':
        p = v.split('-')
        return len(p) == 2 and is_d8(p[0]) and is_d8(p[1])
    if dtype == 'TM':
        return is_tm(v)
    if dtype == 'B':
        return True
    return False


def nlen(v, dtype):
    """length as the standard counts it: sign and point not counted for numbers"""
    if dtype and (dtype == 'R' or dtype[0] == 'N'):
        return len(v.replace('-', '').replace('.', ''))
    return len(v)


# ------------------------------------------------------------------ generators

PLAIN = 'ABCDEFGHJKLMNPQRSTUVWXYZ0123456789'


def gen_date(rng):
    y = rng.choice([1999, 2000, 2004, 2004, 2012, 2020, rng.randint(1900, 2049)])
    m = rng.randint(1, 12)
    d = rng.randint(1, _mdays(y, m))
    return '%04d%02d%02d' % (y, m, d)


def gen_time(rng, n):
    t = '%02d%02d%02d%02d' % (rng.randint(0, 23), rng.randint(0, 59), rng.randint(0, 59), rng.randint(0, 99))
    return t[:n]


def gen_member(rng, dtype, mn, mx, alphabet=PLAIN, longer=6):
    """a member of the type's language with nlen in [mn, mx], or None if impossible"""
    if dtype is None:
        dtype = 'AN'
    hi = min(mx, mn + longer)
    n = rng.randint(mn, max(mn, hi))
    if rng.random() < 0.15:
        n = rng.choice([mn, mx]) if mx <= 80 else mn
    if dtype in ('AN', 'ID', 'B'):
        if n <= 0:
            n = 1
        v = ''.join(rng.choice(alphabet) for _ in range(n))
        # no leading / trailing blank in the conformant arm
        if v[0] == ' ':
            v = 'A' + v[1:]
        if v[-1] == ' ':
            v = v[:-1] + 'Z'
        return v
    if dtype[0] == 'N':
        n = max(n, 1)
        v = ''.join(rng.choice('0123456789') for _ in range(n))
        if rng.random() < 0.1:
            v = '-' + v
        return v
    if dtype == 'R':
        n = max(n, 1)
        v = ''.join(rng.choice('0123456789') for _ in range(n))
        if n >= 2 and rng.random() < 0.4:
            k = rng.randint(1, n - 1)
            v = v[:k] + '.' + v[k:]
        if rng.random() < 0.1:
            v = '-' + v
        return v
    if dtype == 'D8':
        return gen_date(rng) if mn <= 8 <= mx else None
    if dtype == 'D6':
        return gen_date(rng)[2:] if mn <= 6 <= mx else None
    if dtype == 'DT':
        opts = [k for k in (8, 6, 12) if mn <= k <= mx]
        if not opts:
            return None
        k = rng.choice(opts)
        d = gen_date(rng)
        return d if k == 8 else (d[2:] if k == 6 else d + gen_time(rng, 4))
    if dtype == 'RD8':
        if not (mn <= 17 <= mx):
            return None
        return gen_date(rng) + '-' + gen_date(rng)
    if dtype == 'TM':
        opts = [k for k in (4, 6, 7, 8) if mn <= k <= mx]
        if not opts:
            return None
        return gen_time(rng, rng.choice(opts))
    return None


def gen_bad_date(rng, dtype):
    """non-members that break exactly the calendar rule, right length and alphabet"""
    bad8 = rng.choice(['20040231', '20041301', '19000229', '20040000', '20040631', '17991231', '20010229'])
    if dtype == 'D8':
        return bad8
    if dtype == 'D6':
        return bad8[2:] if bad8 != '17991231' else '040231'
    if dtype == 'DT':
        return bad8
    if dtype == 'RD8':
        return rng.choice([bad8 + '-20040101', '20040101-' + bad8])
    return bad8


def gen_bad_time(rng, n):
    t = rng.choice(['2400', '1260', '9999', '2460'])
    if n >= 6:
        t = rng.choice(['240000', '126000', '123060', '235960'])
    return (t + '00')[:max(n, 4)] if n in (7, 8) else t
