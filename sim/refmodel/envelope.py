"""Independent envelope recount (DESIGN Appendix A.2).  Does not import pyx12.

recount(segs, check_lx) takes a list of segments, each a list
[id, e1, e2, ...] of strings (simple values; composites joined are irrelevant
here) and returns Recount with
  .nested   True iff headers/trailers nest properly (a prefix of a well nested
            ISA > GS > ST sequence; trailers meet their own kind on top)
  .errors   list of (segment index, level, code); index len(segs) = end of input
"""
import re

_CANON = re.compile(r'^(0|[1-9][0-9]*)$')


def num(s):
    """canonical decimal -> int, anything else -> None (never equal to a count)"""
    if s is not None and _CANON.match(s):
        return int(s)
    return None


def get(seg, i):
    return seg[i] if i < len(seg) else None


class Recount(object):
    def __init__(self):
        self.nested = True
        self.errors = []
        self.counts = []     # per segment: (groups, sets, segments-so-far) for repair oracles
        self.hl2_dontcare = False   # a parent named an HL under an earlier root: the statement does not decide it

    def multiset(self):
        d = {}
        for _, lvl, code in self.errors:
            d[(lvl, code)] = d.get((lvl, code), 0) + 1
        return d


def recount(segs, check_lx=False):
    r = Recount()
    stack = []            # (kind, control number)
    isa_ids = []
    gs_ids = []
    st_ids = []
    groups = sets = nseg = 0
    hl_count = 0
    hl_chain = []
    hl_stale = []
    lx = 0
    for i, seg in enumerate(segs):
        sid = seg[0]
        top = stack[-1][0] if stack else None
        if sid == 'ISA':
            cn = get(seg, 13)
            if top is not None:
                r.nested = False
            if cn in isa_ids:
                r.errors.append((i, 'isa', '025'))
            isa_ids.append(cn)
            stack.append(('ISA', cn))
            groups = 0
            gs_ids = []
        elif sid == 'GS':
            cn = get(seg, 6)
            if top != 'ISA':
                r.nested = False
            if cn in gs_ids:
                r.errors.append((i, 'gs', '6'))
            gs_ids.append(cn)
            groups += 1
            stack.append(('GS', cn))
            sets = 0
            st_ids = []
        elif sid == 'ST':
            cn = get(seg, 2)
            if top != 'GS':
                r.nested = False
            if cn in st_ids:
                r.errors.append((i, 'st', '23'))
            st_ids.append(cn)
            sets += 1
            stack.append(('ST', cn))
            nseg = 1
            hl_count = 0
            hl_chain = []
            hl_stale = []
            lx = 0          # service lines are numbered within a claim; a new set cannot continue the previous set's claim
        elif sid == 'SE':
            if top != 'ST':
                r.nested = False
            else:
                if stack[-1][1] != get(seg, 2):
                    r.errors.append((i, 'st', '3'))
                if num(get(seg, 1)) != nseg + 1:
                    r.errors.append((i, 'st', '4'))
                stack.pop()
        elif sid == 'GE':
            if top != 'GS':
                r.nested = False
            else:
                if stack[-1][1] != get(seg, 2):
                    r.errors.append((i, 'gs', '4'))
                if num(get(seg, 1)) != sets:
                    r.errors.append((i, 'gs', '5'))
                stack.pop()
        elif sid == 'IEA':
            if top != 'ISA':
                r.nested = False
            else:
                if stack[-1][1] != get(seg, 2):
                    r.errors.append((i, 'isa', '001'))
                if num(get(seg, 1)) != groups:
                    r.errors.append((i, 'isa', '021'))
                stack.pop()
        else:
            if top != 'ST':
                # body segment outside a transaction set: no envelope rule speaks about it
                pass
            nseg += 1
            if sid == 'HL':
                hl_count += 1
                if num(get(seg, 1)) != hl_count:
                    r.errors.append((i, 'seg', 'HL1'))
                p = get(seg, 2)
                if p is None or p == '':
                    # a new root: subtrees opened so far are closed
                    hl_stale += hl_chain
                    hl_chain = []
                else:
                    pn = num(p)
                    if pn is not None and pn not in hl_chain and pn in hl_stale:
                        r.hl2_dontcare = True
                    if pn is None or pn not in hl_chain:
                        # not an open ancestor: this HL is wrong; the open chain is what it was (a later HL that names a
                        # still-open ancestor is right)
                        r.errors.append((i, 'seg', 'HL2'))
                    else:
                        while hl_chain and hl_chain[-1] != pn:
                            hl_chain.pop()
                hl_chain.append(hl_count)
            elif check_lx and sid == 'CLM':
                lx = 0
            elif check_lx and sid == 'LX':
                lx += 1
                if get(seg, 1) != str(lx):
                    r.errors.append((i, 'seg', 'LX'))
        r.counts.append((groups, sets, nseg, hl_count))
        if not r.nested:
            break
    if r.nested:
        for kind, cn in stack:
            r.errors.append((len(segs), {'ISA': 'isa', 'GS': 'gs', 'ST': 'st'}[kind],
                             {'ISA': '023', 'GS': '3', 'ST': '2'}[kind]))
    return r


TRACKED = {
    ('isa', '001'), ('isa', '021'), ('isa', '023'), ('isa', '025'), ('isa', '024'),
    ('gs', '3'), ('gs', '4'), ('gs', '5'), ('gs', '6'),
    ('st', '2'), ('st', '3'), ('st', '4'), ('st', '23'),
    ('seg', 'HL1'), ('seg', 'HL2'), ('seg', 'LX'),
}
