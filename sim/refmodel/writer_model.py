"""Reference model of the X12 writer (DESIGN Appendix A.7).  No pyx12 import.

expected(events, sub_term, rep) -> list of segments [id, [comps], [comps], ...]
events: list of segments [id, e1, e2, ...] written in order (composites use ':'
between components), followed by an implicit Close().
"""


def _trailer(sid, count, ctl):
    return [sid, [str(count)], [ctl if ctl is not None else '']]      # a header without control number: the trailer has none either (never the text 'None')


def expected(events, sub_term, rep):
    out = []
    stack = []           # (kind, control number)
    groups = sets = nseg = 0

    def close_top():
        nonlocal groups, sets, nseg
        kind, ctl = stack.pop()
        if kind == 'ST':
            out.append(_trailer('SE', nseg + 1, ctl))
            nseg = 0
        elif kind == 'GS':
            out.append(_trailer('GE', sets, ctl))
            sets = 0
        else:
            out.append(_trailer('IEA', groups, ctl))
            groups = 0

    def pop_to(kind):
        while stack and stack[-1][0] != kind:
            close_top()
        if stack:
            close_top()

    for seg in events:
        sid = seg[0]
        els = [e.split(':') for e in seg[1:]]
        if sid == 'ISA':
            els = [[e] for e in seg[1:]]
            if len(els) >= 16:
                els[15] = [sub_term]
                if els[11] == ['00501']:
                    els[10] = [rep]
            stack.append(('ISA', seg[13] if len(seg) > 13 else None))
            groups = 0
            out.append([sid] + els)
        elif sid == 'GS':
            groups += 1
            stack.append(('GS', seg[6] if len(seg) > 6 else None))
            sets = 0
            out.append([sid] + els)
        elif sid == 'ST':
            sets += 1
            stack.append(('ST', seg[2] if len(seg) > 2 else None))
            nseg = 1
            out.append([sid] + els)
        elif sid == 'SE':
            pop_to('ST')
        elif sid == 'GE':
            pop_to('GS')
        elif sid == 'IEA':
            pop_to('ISA')
        else:
            nseg += 1
            out.append([sid] + els)
    while stack:
        close_top()
    return out


def trim(seg):
    """normal form of [id, [comps]...]"""
    els = []
    for comps in seg[1:]:
        c = list(comps)
        while len(c) > 1 and c[-1] == '':
            c.pop()
        els.append(c)
    while els and all(x == '' for x in els[-1]):
        els.pop()
    return [seg[0]] + els
