"""Executable reference model of the loop-tree editing API (C10).

The model is a nested list structure mirroring a tree obtained from the context
reader.  It reads only *data* from the map nodes (id, pos, code lists, data
types); path resolution, matching by qualifier, insertion order, deletion and
copy semantics are implemented here from the property statement.
"""
import copy as _copy
import re

_LAST = re.compile(r'^(?P<seg>[A-Z][A-Z0-9]{1,2})?(\[(?P<qual>[A-Z0-9]+)\])?(?P<ele>[0-9]{2})?(-(?P<sub>[0-9]+))?$')


class BadPath(Exception):
    pass


class MSeg(object):
    kind = 'seg'

    def __init__(self, pos, sid, vals, qual, parent=None):
        self.pos = pos
        self.id = sid
        self.vals = vals          # list of list[str]
        self.qual = qual          # (ele, sub, codes) or None
        self.parent = parent

    def ser(self):
        return (self.id, [list(c) for c in self.vals])


class MLoop(object):
    kind = 'loop'

    def __init__(self, pos, lid, parent=None):
        self.pos = pos
        self.id = lid
        self.children = []
        self.parent = parent

    def ser(self):
        out = []
        for c in self.children:
            if c.kind == 'seg':
                out.append(c.ser())
            else:
                out += c.ser()
        return out

    def shape(self):
        return (self.id, [c.shape() if c.kind == 'loop' else c.id for c in self.children])


def build(real, parent=None):
    """mirror a real X12LoopDataNode / X12SegmentDataNode"""
    if real.type == 'seg':
        s = real.seg_data
        return MSeg(real.x12_map_node.pos, s.get_seg_id(), [[e.get_value() for e in c.elements] for c in s.elements],
                    qual_position(real.x12_map_node), parent)
    m = MLoop(real.x12_map_node.pos, real.id, parent)
    for c in real.children:
        if c.type is not None:
            m.children.append(build(c, m))
    return m


def parse_path(p):
    """-> (ups, loops, seg, qual, ele, sub)"""
    ups = 0
    while p.startswith('../'):
        ups += 1
        p = p[3:]
    if p == '' or p.startswith('/'):
        raise BadPath(p)
    parts = p.split('/')
    last = parts[-1]
    m = _LAST.match(last)
    loops = parts[:-1]
    seg = qual = ele = sub = None
    if m and last != '':
        seg, qual = m.group('seg'), m.group('qual')
        ele = int(m.group('ele')) if m.group('ele') else None
        sub = int(m.group('sub')) if m.group('sub') else None
        if ele == 0 or sub == 0:
            raise BadPath(p)          # elements count from 01, components from 1
        if seg is None and qual is not None:
            raise BadPath(p)
        if seg is None and (ele is not None or sub is not None) and loops:
            raise BadPath(p)
    else:
        loops = parts
    if any(x == '' for x in loops):
        raise BadPath(p)
    return ups, loops, seg, qual, ele, sub


def qual_position(map_node):
    """(ele, sub, codes) of the qualifier used to address same-id segments, or None"""
    ch = map_node.children
    if not ch:
        return None
    c0 = ch[0]
    if c0.is_element() and c0.get_data_type() == 'ID' and c0.usage == 'R' and c0.valid_codes:
        return (1, None, c0.valid_codes)
    if map_node.id == 'ENT' and len(ch) > 1 and ch[1].is_element() and ch[1].get_data_type() == 'ID' and ch[1].valid_codes:
        return (2, None, ch[1].valid_codes)
    if c0.is_composite() and c0.children[0].get_data_type() == 'ID' and c0.children[0].valid_codes:
        return (1, 1, c0.children[0].valid_codes)
    if map_node.id == 'HL' and len(ch) > 2 and ch[2].is_element() and ch[2].valid_codes:
        return (3, None, ch[2].valid_codes)
    return None


def seg_value(mseg, ele, sub):
    if ele is None:
        return None
    if ele > len(mseg.vals):
        return None
    comps = mseg.vals[ele - 1]
    if sub is None:
        t = list(comps)
        while len(t) > 1 and t[-1] == '':
            t.pop()
        return ':JOIN:'.join(t)
    if sub > len(comps):
        return None
    return comps[sub - 1]


def seg_matches(mseg, seg, qual):
    if mseg.id != seg:
        return False
    if qual is None:
        return True
    q = mseg.qual
    if q is None:
        # no qualifier element by the map's rule: the bracketed value is compared with the first element (its first component)
        v = mseg.vals[0][0] if mseg.vals and mseg.vals[0] else None
        return v == qual
    e, s, codes = q
    v = seg_value(mseg, e, s if s else None)
    if s is None and v is not None and ':JOIN:' in v:
        v = None
    return qual in codes and v == qual


def start_node(node, ups):
    cur = node
    for _ in range(ups):
        if cur.parent is None:
            raise BadPath('no parent')
        cur = cur.parent
    return cur


def select(node, path):
    ups, loops, seg, qual, ele, sub = parse_path(path)
    cur = start_node(node, ups)
    return list(_select(cur, loops, seg, qual))


def _select(cur, loops, seg, qual):
    if cur.kind != 'loop':
        return
    if not loops:
        if seg is None:
            return
        for c in cur.children:
            if c.kind == 'seg':
                if seg_matches(c, seg, qual):
                    yield c
            elif c.id == seg:
                yield c
    else:
        for c in cur.children:
            if c.kind == 'loop' and c.id == loops[0]:
                if len(loops) == 1 and seg is None:
                    yield c
                else:
                    for x in _select(c, loops[1:], seg, qual):
                        yield x


def first_segment(node, path):
    """first matching *segment* in document order, over every instance of the loops named (what first() and select() see)"""
    ups, loops, seg, qual, ele, sub = parse_path(path)
    cur = start_node(node, ups)
    if seg is None:
        return None, ele, sub

    def descend(cur, lids):
        if cur.kind != 'loop':
            return None
        if not lids:
            for c in cur.children:
                if c.kind == 'seg' and seg_matches(c, seg, qual):
                    return c
            return None
        for c in cur.children:
            if c.kind == 'loop' and c.id == lids[0]:
                hit = descend(c, lids[1:])
                if hit is not None:
                    return hit
        return None
    return descend(cur, loops), ele, sub


def set_value(mseg, ele, sub, val):
    while len(mseg.vals) < ele:
        mseg.vals.append([''])
    if sub is None:
        mseg.vals[ele - 1] = [val]
    else:
        while len(mseg.vals[ele - 1]) < sub:
            mseg.vals[ele - 1].append('')
        mseg.vals[ele - 1][sub - 1] = val


def insert_index(mloop, pos):
    idx = None
    for i, c in enumerate(mloop.children):
        if c.pos <= pos:
            idx = i
    return idx + 1 if idx is not None else len(mloop.children)


def deep_copy(node, parent=None):
    if node.kind == 'seg':
        return MSeg(node.pos, node.id, [list(c) for c in node.vals], node.qual, parent)
    m = MLoop(node.pos, node.id, parent)
    for c in node.children:
        m.children.append(deep_copy(c, m))
    return m
