"""Reference tokeniser (DESIGN Appendix A.1).  Does not import pyx12.

tokenise(text) -> Tokens with
  .delims   (seg_term, ele_term, subele_term, repetition or None), icvn
  .segs     list of RefSeg(id, elements=[ [components...] ...], errors=set(), line)
A RefSeg element is a list of component strings (a simple element has one).
"""

ISA_LEN = 106


class NotX12(Exception):
    pass


class RefSeg(object):
    __slots__ = ('id', 'elements', 'errors', 'line', 'raw')

    def __init__(self, sid, elements, errors, line, raw):
        self.id = sid
        self.elements = elements
        self.errors = errors
        self.line = line
        self.raw = raw

    def values(self):
        return [self.id] + self.elements

    def trimmed(self):
        """Normal form: trailing empty components and trailing empty elements removed."""
        els = []
        for comps in self.elements:
            c = list(comps)
            while len(c) > 1 and c[-1] == '':
                c.pop()
            els.append(c)
        while els and all(x == '' for x in els[-1]):
            els.pop()
        return els

    def format(self, seg_term, ele_term, subele_term, idonly_sep=False):
        els = self.trimmed()
        if not els and not idonly_sep:
            return self.id + seg_term          # nothing but the identifier: there is no separator to write
        return self.id + ele_term + ele_term.join(subele_term.join(c) for c in els) + seg_term

    def get(self, ele, comp=None):
        """1-based; None if beyond the end."""
        if ele > len(self.elements):
            return None
        c = self.elements[ele - 1]
        if comp is None:
            return c[0] if len(c) == 1 else None
        if comp > len(c):
            return None
        return c[comp - 1]

    def __repr__(self):
        return 'RefSeg(%r,%r)' % (self.id, self.elements)


class Tokens(object):
    def __init__(self):
        self.seg_term = self.ele_term = self.subele_term = self.repetition = None
        self.icvn = None
        self.segs = []
        self.tail = ''          # text after the last terminator (a last segment when it is more than white space)

    def delims(self):
        return (self.seg_term, self.ele_term, self.subele_term, self.repetition)

    def normal_text(self, eol='', idonly_sep=False):
        return ''.join(s.format(self.seg_term, self.ele_term, self.subele_term, idonly_sep) + eol for s in self.segs)


def header(text):
    """Check the 106-character ISA header exactly as the documented refusal
    condition states: prefix ISA, full length, version 00401/00501."""
    head = text[:ISA_LEN]
    if head[:3] != 'ISA':
        raise NotX12('no ISA prefix')
    if len(head) != ISA_LEN:
        raise NotX12('short ISA')
    icvn = head[84:89]
    if icvn not in ('00401', '00501'):
        raise NotX12('unknown version')
    if head[105].isalnum() or head[3].isalnum() or head[104].isalnum():
        raise NotX12('a letter or digit as delimiter')       # cannot delimit anything ('S' splits 'ISA' itself): a malformed ISA
    return head[105], head[3], head[104], (head[82] if icvn == '00501' else None), icvn


def split_segment(piece, ele_term, subele_term):
    parts = piece.split(ele_term)
    sid = parts[0]
    if sid == 'ISA':
        els = [[p] for p in parts[1:]]
    else:
        els = [p.split(subele_term) for p in parts[1:]]
    return sid, els


def tokenise(text, blank_only='skip'):
    """blank_only: how a piece consisting only of blanks is treated.  The
    property statement leaves it open ('non-empty segments', 'leading blanks
    dropped'); 'skip' drops it, 'keep' returns a RefSeg with id ''."""
    t = Tokens()
    t.seg_term, t.ele_term, t.subele_term, t.repetition, t.icvn = header(text)
    pieces = text.split(t.seg_term)
    t.tail = pieces[-1]
    line = 0
    body = pieces[:-1]
    if t.tail.strip() != '':
        # the input ends without a terminator: what follows the last terminator is still a segment (lossless reading);
        # a tail of nothing but white space (line break, padding) is not
        body = pieces
    for raw in body:
        piece = raw.lstrip('\r\n')
        if piece == '':
            continue
        errors = set()
        if piece.startswith(' '):
            errors.add('1')
            piece = piece.lstrip(' \r\n')      # fixed-width records: blanks, then the line break ("SEG~   \nNEXT")
            if piece == '':
                if blank_only == 'skip':
                    continue
        if piece.endswith(t.ele_term):
            errors.add('SEG1')
        sid, els = split_segment(piece, t.ele_term, t.subele_term)
        line += 1
        t.segs.append(RefSeg(sid, els, errors, line, raw))
    return t


def tokenise_plain(text, seg_term, ele_term, subele_term):
    """Tokenise text that need not start with an ISA (used to re-read output
    written with known delimiters)."""
    out = []
    pieces = text.split(seg_term)
    for raw in pieces[:-1]:
        piece = raw.lstrip('\r\n')
        if piece == '':
            continue
        sid, els = split_segment(piece, ele_term, subele_term)
        out.append(RefSeg(sid, els, set(), len(out) + 1, raw))
    return out, pieces[-1]
