"""Shared workload helpers for the map-based properties: draw a conformant
document (text + ground truth) and a run configuration (delimiters, layout,
chunk plan, sinks, charset, source kind, map path, clock / PRNG scripts), and
execute one validation behind the seams.
"""
import io
import os
import tempfile

import core
import seams
import mapspec
import docgen
import observe
from refmodel import values as V
from props import c01 as _c01

SEG_TERMS = ['~', '~', '~', '\n', '!', '\x1d', '\x1c']
ELE_TERMS = ['*', '*', '*', '|', '\x1f', '\t']
SUB_TERMS = [':', ':', ':', '>', '<', '\\', '@']
REPS = ['^', '^', '`', '#', '!', '&', '+']
EXCLUDED_MAPS = {
    '841.4010.XXXC.xml': 'required elements SPI04/RDT01.. reference data elements 790/791/792/795/796/1401 that dataele.xml does not define',
}


def entries():
    return mapspec.selectable()


def draw_doc(rng, entry, size_cap=300, structural=False, alphabet=V.PLAIN, charset='E', multi=None, attempts=8,
             sub_term=':', rep='^'):
    """-> Gen (with .segs) or raises docgen.Unsupported"""
    last = None
    for k in range(attempts):
        kn = docgen.Knobs(rich=rng.choice([0.05, 0.2, 0.4, 0.7, 1.0]), maxrep=rng.choice([1, 2, 2, 3]), size_cap=size_cap,
                          alphabet=alphabet, charset=charset, structural=structural)
        if multi is None:
            r = rng.random()
            n_isa, n_gs, n_st = (1, 1, 1) if r < 0.75 else ((1, 1, rng.choice([2, 3])) if r < 0.9 else
                                                            (rng.choice([1, 2]), rng.choice([1, 2]), rng.choice([1, 2])))
        else:
            n_isa, n_gs, n_st = multi
        if n_isa * n_gs * n_st > 1:
            kn.size_cap = max(40, size_cap // (n_isa * n_gs * n_st))
        try:
            g = docgen.make(rng, entry, kn, n_isa, n_gs, n_st, sub_term, rep, ctl_base=rng.randint(1, 9999))
            g.knobs = kn
            g.shape = (n_isa, n_gs, n_st)
            return g
        except docgen.Unsupported as e:
            last = e
    raise last


class MultiDoc(object):
    """one interchange whose functional groups select different maps (same interchange version)"""

    def __init__(self):
        self.segs = []
        self.ambiguous = 0
        self.skipped = set()
        self.shape = (1, 0, 0)
        self.knobs = None
        self.files = []


def draw_multimap(rng, icvn, size_cap=120, structural=False, alphabet=V.PLAIN, charset='E', ngroups=None):
    """-> MultiDoc: ISA, then 2..3 groups generated from different maps, IEA.  Raises docgen.Unsupported."""
    ents = [e for e in entries() if e['icvn'] == icvn and e['file'] not in EXCLUDED_MAPS]
    k = ngroups or rng.choice([2, 2, 3])
    chosen = [rng.choice(ents) for _ in range(k)]
    md = MultiDoc()
    base = rng.randint(1, 9000)
    for gi, entry in enumerate(chosen):
        g = draw_doc(rng, entry, size_cap=max(25, size_cap // k), structural=structural, alphabet=alphabet, charset=charset,
                     multi=(1, 1, rng.choice([1, 1, 2])))
        segs = g.segs
        if gi == 0:
            md.segs.append(segs[0])
            md.knobs = g.knobs
        body = segs[1:-1]
        for s in body:
            # one interchange, group number gi+1; control numbers unique per group
            s.inst = (('ISA_LOOP', 1), ('GS_LOOP', gi + 1)) + tuple(s.inst[2:])
            if s.node.id == 'GS':
                s.vals[5] = str(base + gi)
            elif s.node.id == 'GE':
                s.vals[1] = str(base + gi)
        md.segs += body
        if gi == k - 1:
            iea = segs[-1]
            iea.vals = [str(k), md.segs[0].vals[12]]
            md.segs.append(iea)
        md.ambiguous += g.ambiguous
        md.skipped |= g.skipped
        md.files.append(entry['file'])
    for n, s in enumerate(md.segs):
        s.line = n + 1
    si = 0
    for s in md.segs:
        if s.node.id == 'ST':
            si += 1
        if s.set_index is not None:
            s.set_index = si
    md.shape = (1, k, 0)
    return md


def draw_mixed(rng, size_cap=120, structural=False, alphabet=V.PLAIN, charset='E'):
    """-> MultiDoc: two complete interchanges of *different* interchange versions (00401 then 00501 or the reverse), each from
    its own map.  The reader takes its delimiters from the first ISA; the version (control map, 997/999) changes at the second."""
    order = rng.choice([('00401', '00501'), ('00501', '00401')])
    md = MultiDoc()
    base = rng.randint(1, 9000)
    for k, icvn in enumerate(order):
        ents = [e for e in entries() if e['icvn'] == icvn and e['file'] not in EXCLUDED_MAPS]
        entry = rng.choice(ents)
        g = draw_doc(rng, entry, size_cap=max(25, size_cap // 2), structural=structural, alphabet=alphabet, charset=charset,
                     multi=(1, 1, rng.choice([1, 1, 2])))
        for s in g.segs:
            s.inst = (('ISA_LOOP', k + 1),) + tuple(s.inst[1:])
            if s.node.id == 'ISA':
                s.vals[12] = '%09d' % (base + k)
            elif s.node.id == 'IEA':
                s.vals[1] = '%09d' % (base + k)
        md.segs += g.segs
        if k == 0:
            md.knobs = g.knobs
        md.ambiguous += g.ambiguous
        md.skipped |= g.skipped
        md.files.append(entry['file'])
    si = 0
    for n, s in enumerate(md.segs):
        s.line = n + 1
        if s.node.id == 'ST':
            si += 1
        if s.set_index is not None:
            s.set_index = si
    md.shape = (2, 1, 0)
    md.icvns = list(order)
    return md


def draw_delims(rng, icvn, segs, charset='E'):
    """delimiters absent from the data; component separator / repetition inside the declared charset"""
    data = set()
    for g in segs:
        for i, v in enumerate(g.vals):
            if g.node.id == 'ISA' and i in (10, 15):
                continue          # the ISA's own delimiter fields are rewritten by encode()
            for x in (v if isinstance(v, list) else [v]):
                data.update(x)
    allowed = V.charset(charset, icvn)
    for _ in range(30):
        d = [rng.choice(SEG_TERMS), rng.choice(ELE_TERMS), rng.choice(SUB_TERMS), rng.choice(REPS)]
        used = d[:3] + ([d[3]] if icvn == '00501' else [])
        if len(set(used)) != len(used):
            continue
        if any(c in data for c in used):
            continue
        if d[2] not in allowed or (icvn == '00501' and d[3] not in allowed):
            continue
        return d
    # fallback: the usual triple, with a repetition character the declared charset allows
    for rep in ['^', '+', '!', '&', '(', ')', '/', '?', ';', '=']:
        if (icvn != '00501' or rep in allowed) and rep not in data and rep not in '~*:':
            return ['~', '*', ':', rep]
    return ['~', '*', ':', '^']


def encode(rng, segs, delims, layout):
    seg_term, ele_term, sub_term, rep = delims
    out = []
    for g in segs:
        parts = []
        for i, v in enumerate(g.vals):
            parts.append(sub_term.join(v) if isinstance(v, list) else v)
        if g.node.id == 'ISA' and len(parts) >= 16:
            parts[15] = sub_term
            if parts[11] == '00501':
                parts[10] = rep
        if layout == 'none' or seg_term in '\r\n':
            b = ''
        elif layout == 'lf':
            b = '\n'
        elif layout == 'crlf':
            b = '\r\n'
        elif layout == 'cr':
            b = '\r'
        else:
            b = rng.choice(['', '\n', '\r\n', '\r'])
        out.append(g.node.id + ele_term + ele_term.join(parts) + seg_term + b)
    return ''.join(out)


def draw_config(rng, text, allow_path=True):
    kinds = ['sim', 'sim', 'sim', 'stringio', 'rawio'] + (['path'] if allow_path else [])
    kind = rng.choice(kinds)
    B = rng.choice([8192, 8192, 8192, 1024, 107, 64])
    seg_term = text[105] if len(text) > 105 else '~'
    plan = _c01.gen_plan(rng, text, B, seg_term) if kind in ('sim', 'rawio') else {'kind': 'exact'}
    sinks = [s for s in ('ack', 'html', 'xml') if rng.random() < 0.6]
    if rng.random() < 0.3:
        sinks = ['ack']
    t0 = rng.choice([946684799.0, 1096588800.0, 1709251199.0, 2524607999.0, float(rng.randint(946684800, 2500000000))])
    script = [t0]
    for _ in range(12):
        step = rng.choice([0, 0, 0, 0, 1, 59, 60, 3600, 86400, -1, -86400, 31536000])
        script.append(script[-1] + step)
    return {'kind': kind, 'plan': plan, 'bufsize': B, 'sinks': sinks, 'map_path': rng.choice([None, None, 'explicit']),
            'clock': script, 'rand': [rng.randint(0, 10 ** 9) for _ in range(3)], 'reseed': rng.randint(0, 10 ** 6)}


def file_of(node):
    n = node
    while n is not None and n.kind != 'map':
        n = n.parent
    return getattr(n, 'file', None)


def truth_of(segs):
    return [[g.node.path(), g.seg_count, g.set_index, g.node.id, getattr(g.node, 'uid', -1), file_of(g.node)] for g in segs]


def run(text, cfg, charset='E', log=None, callback=None, eof=None):
    """one validation behind the seams -> observe.Result"""
    kind = cfg.get('kind', 'sim')
    cleanup = None
    source = 'sim'
    t = text if eof is None else text[:eof]
    if kind == 'stringio':
        source = 'stringio'
    elif kind == 'rawio':
        source = seams.text_over_raw(t, cfg.get('plan'), log=log)
    elif kind == 'path':
        base = os.environ.get('VERIF_SCRATCH_RUN') or tempfile.gettempdir()
        fd, path = tempfile.mkstemp(prefix='doc-', suffix='.x12', dir=base)
        with os.fdopen(fd, 'w', encoding='latin-1', newline='') as f:
            f.write(t)
        source = path
        cleanup = path
    mp = None
    if cfg.get('map_path') == 'explicit':
        mp = mapspec.map_dir()
    clock = seams.SimClock(cfg.get('clock') or [1096588800.0], log)
    rand = seams.SimRandom(cfg.get('rand') or [1], cfg.get('reseed', 0), log)
    try:
        res = observe.validate(t if source in ('sim', 'stringio') else text, sinks=tuple(cfg.get('sinks', ('ack',))),
                               charset=charset, plan=cfg.get('plan'), eof=None, clock=clock, rand=rand, log=log,
                               source=source, map_path=mp, bufsize=cfg.get('bufsize', 8192), callback=callback)
    finally:
        if cleanup:
            try:
                os.unlink(cleanup)
            except OSError:
                pass
    return res
