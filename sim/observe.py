"""Observers: run pyx12 entry points behind the seams and collect what they did.

validate(text, ...) runs pyx12.x12n_document.x12n_document with simulated
source/sinks/clock/PRNG and a tap on the error tree; the tree is walked with
our own traversal (never get_error_count()).
"""
import io
import os
import traceback

import seams


class Err(object):
    __slots__ = ('level', 'code', 'msg', 'value', 'isa', 'gs', 'st', 'seg_id', 'seg_count', 'line', 'ele_pos', 'subele_pos',
                 'ref_num', 'seg_name')

    def __init__(self, level, code, msg, value=None):
        self.level = level
        self.code = code
        self.msg = msg
        self.value = value
        self.isa = self.gs = self.st = None
        self.seg_id = self.seg_count = self.line = self.ele_pos = self.subele_pos = self.ref_num = self.seg_name = None

    def key(self):
        return (self.level, self.code, self.isa, self.gs, self.st, self.seg_id, self.seg_count, self.ele_pos, self.subele_pos,
                self.value)

    def __repr__(self):
        return 'Err(%s %s isa=%s gs=%s st=%s seg=%s#%s ele=%s-%s val=%r)' % (
            self.level, self.code, self.isa, self.gs, self.st, self.seg_id, self.seg_count, self.ele_pos, self.subele_pos, self.value)


def walk_tree(errh):
    """own traversal of the tapped error tree -> (errors, structure)
    structure: list of isa dicts {id, closed, gs:[{id, fic, closed, ack, st:[{id, set_id, closed, ack}]}]}"""
    errs = []
    struct = []
    for ii, isa in enumerate(getattr(errh, 'children', [])):
        irec = {'id': getattr(isa, 'isa_trn_set_id', None), 'closed': getattr(isa, 'cur_line_iea', None) is not None, 'gs': [],
                'seg': isa.seg_data if hasattr(isa, 'seg_data') else None}
        struct.append(irec)
        for (c, m) in getattr(isa, 'errors', []):
            e = Err('isa', c, m)
            e.isa = ii
            errs.append(e)
        for ele in getattr(isa, 'elements', []):
            for (c, m, v) in ele.errors:
                e = Err('ele', c, m, v)
                e.isa = ii
                e.seg_id = 'ISA'
                e.ele_pos, e.subele_pos, e.ref_num = ele.ele_pos, ele.subele_pos, ele.ele_ref_num
                errs.append(e)
        for gi, gs in enumerate(isa.children):
            grec = {'id': getattr(gs, 'gs_control_num', None), 'fic': getattr(gs, 'fic', None), 'vriic': getattr(gs, 'vriic', None),
                    'closed': getattr(gs, 'cur_line_ge', None) is not None, 'ack': getattr(gs, 'ack_code', None),
                    'st_orig': getattr(gs, 'st_count_orig', None), 'st_recv': getattr(gs, 'st_count_recv', None), 'st': []}
            irec['gs'].append(grec)
            for (c, m) in getattr(gs, 'errors', []):
                e = Err('gs', c, m)
                e.isa, e.gs = ii, gi
                errs.append(e)
            for ele in getattr(gs, 'elements', []):
                for (c, m, v) in ele.errors:
                    e = Err('ele', c, m, v)
                    e.isa, e.gs = ii, gi
                    e.seg_id = 'GS'
                    e.ele_pos, e.subele_pos, e.ref_num = ele.ele_pos, ele.subele_pos, ele.ele_ref_num
                    errs.append(e)
            for si, st in enumerate(gs.children):
                srec = {'id': getattr(st, 'trn_set_control_num', None), 'set_id': getattr(st, 'trn_set_id', None),
                        'closed': getattr(st, 'cur_line_se', None) is not None, 'ack': getattr(st, 'ack_code', None)}
                grec['st'].append(srec)
                for (c, m) in getattr(st, 'errors', []):
                    e = Err('st', c, m)
                    e.isa, e.gs, e.st = ii, gi, si
                    errs.append(e)
                for ele in getattr(st, 'elements', []):
                    for (c, m, v) in ele.errors:
                        e = Err('ele', c, m, v)
                        e.isa, e.gs, e.st = ii, gi, si
                        e.seg_id = 'ST'
                        e.seg_count = 1
                        e.ele_pos, e.subele_pos, e.ref_num = ele.ele_pos, ele.subele_pos, ele.ele_ref_num
                        errs.append(e)
                for seg in st.children:
                    for (c, m, v) in seg.errors:
                        e = Err('seg', c, m, v)
                        e.isa, e.gs, e.st = ii, gi, si
                        e.seg_id, e.seg_count, e.line, e.seg_name = seg.seg_id, seg.seg_count, seg.cur_line, seg.name
                        errs.append(e)
                    for ele in seg.elements:
                        for (c, m, v) in ele.errors:
                            e = Err('ele', c, m, v)
                            e.isa, e.gs, e.st = ii, gi, si
                            e.seg_id, e.seg_count, e.line = seg.seg_id, seg.seg_count, seg.cur_line
                            e.ele_pos, e.subele_pos, e.ref_num = ele.ele_pos, ele.subele_pos, ele.ele_ref_num
                            errs.append(e)
    return errs, struct


class Result(object):
    def __init__(self):
        self.verdict = None
        self.exc = None          # exception object that escaped
        self.exc_sig = None      # 'Type@file:func'
        self.exc_tb = None
        self.errors = []
        self.struct = []
        self.ack = None          # text or None (sink not requested)
        self.html = None
        self.xml = None
        self.sinks = {}
        self.clock = None
        self.rand = None
        self.reads = 0
        self.short_reads = 0
        self.tree_ok = True
        self.logtap = None


def exc_sig(e):
    tb = traceback.extract_tb(e.__traceback__)
    where = '?'
    for fr in reversed(tb):
        if '/pyx12/' in fr.filename:
            where = '%s:%s' % (os.path.basename(fr.filename), fr.name)
            break
    return '%s@%s' % (type(e).__name__, where)


def validate(text, sinks=('ack',), charset='E', plan=None, eof=None, clock=None, rand=None, log=None, source='sim',
             map_path=None, bufsize=8192, callback=None, param=None, exclude_external=None):
    """Run one full validation behind the seams."""
    import pyx12.x12n_document
    import pyx12.params
    res = Result()
    if param is None:
        param = pyx12.params.params()
    param.set('charset', charset)
    if exclude_external:
        param.set('exclude_external_codes', exclude_external)
    if source == 'sim':
        src = seams.SimSource(text, plan, eof=eof, log=log)
    elif source == 'stringio':
        src = io.StringIO(text if eof is None else text[:eof])
    else:
        src = source
    fd_ack = seams.SimSink('ack', log) if 'ack' in sinks else None
    fd_html = seams.SimSink('html', log) if 'html' in sinks else None
    fd_xml = seams.SimSink('xml', log) if 'xml' in sinks else None
    res.sinks = {'ack': fd_ack, 'html': fd_html, 'xml': fd_xml}
    clock = clock or seams.SimClock([1096588800.0], log)
    rand = rand or seams.SimRandom([123456789], 0, log)
    tap = seams.ErrTap()
    logtap = seams.LogTap()
    res.logtap = logtap
    try:
        with tap.patched(), clock.patched(), rand.patched(), seams.bufsize(bufsize), logtap.patched():
            res.verdict = pyx12.x12n_document.x12n_document(param, src, fd_ack, fd_html, fd_xml, None, map_path, callback)
    except seams.SimStall as e:
        res.exc = e
        res.exc_sig = 'SimStall'
    except Exception as e:
        res.exc = e
        res.exc_sig = exc_sig(e)
        res.exc_tb = traceback.format_exc()[-1500:]
    res.clock, res.rand = clock, rand
    if isinstance(src, seams.SimSource):
        res.reads, res.short_reads = src.reads, src.short_reads
    h = tap.first()
    if h is not None:
        try:
            res.errors, res.struct = walk_tree(h)
        except Exception as e:
            res.tree_ok = False
            res.errors, res.struct = [], []
    res.ack = fd_ack.getvalue() if fd_ack else None
    res.html = fd_html.getvalue() if fd_html else None
    res.xml = fd_xml.getvalue() if fd_xml else None
    return res
