#!/venv/bin/python
"""CLI of the pyx12 deterministic simulator.

  check.py <ID> --tier quick|thorough      run the check of one property
  check.py --replay <file>                 re-execute one recorded case
  check.py <ID> --worker ...               (internal) one worker interpreter

Exit codes: 0 property held on everything explored (KNOWN-FINDING lines allowed),
1 violation (prints `VIOLATION property=<id> replay=<path>`), 2 harness error
(never a pass, never a violation).
"""
import argparse
import faulthandler
import importlib
import json
import os
import shutil
import subprocess
import sys
import tempfile
import time

HERE = os.path.dirname(os.path.abspath(__file__))
if HERE not in sys.path:
    sys.path.insert(0, HERE)

import core  # noqa: E402

PY = sys.executable
NCPU = os.cpu_count() or 4


def load_prop(pid):
    return importlib.import_module('props.' + pid.lower())


# ------------------------------------------------------------------ worker

def run_one(mod, seed, tier, run):
    rng = core.substream(seed, mod.ID, 'run', run)
    case = mod.generate(rng, tier, run, seed)
    out = mod.execute(case)
    return case, out


def minimise(mod, case, sig):
    if not hasattr(mod, 'shrink'):
        return case

    def still(c):
        try:
            o = mod.execute(c)
        except Exception:
            return False
        return sig in o.sigs()
    try:
        small = mod.shrink(case, still)
    except Exception as e:  # a shrinker bug must not hide the violation
        sys.stderr.write('shrink failed: %r\n' % (e,))
        return case
    return small if still(small) else case


def replays(path):
    env = dict(os.environ)
    env.pop('PYTHONPATH', None)
    try:
        p = subprocess.run([PY, os.path.abspath(__file__), '--replay', path], stdout=subprocess.PIPE, stderr=subprocess.PIPE,
                           env=env, timeout=900)
    except subprocess.TimeoutExpired:
        return False
    return p.returncode == 1 or b'KNOWN-FINDING' in p.stdout


def worker_main(args):
    faulthandler.enable()
    mod = load_prop(args.prop)
    deadline = time.perf_counter() + args.wall
    faulthandler.dump_traceback_later(args.wall + 90, exit=True)
    known = core.load_known()
    hashseed = int(os.environ.get('PYTHONHASHSEED', '0'))
    res = {
        'evaluations': 0, 'runs': 0, 'cover': {}, 'faults': {}, 'probes': {},
        'sim_time': 0.0, 'steps': 0, 'violations': [], 'known': {}, 'samples': [],
        'digests': {}, 'truncated': False, 'errors': [], 'knobs': {}, 'unreplayable': [],
    }
    seen_sigs = set()
    tries = {}
    runs = [int(x) for x in args.runs.split(',')] if args.runs else \
        range(args.widx, args.nruns, args.nworkers)
    for run in runs:
        if time.perf_counter() > deadline:
            res['truncated'] = True
            break
        try:
            case, out = run_one(mod, args.seed, args.tier, run)
        except Exception as e:
            import traceback
            res['errors'].append({'run': run, 'error': repr(e), 'tb': traceback.format_exc()[-2000:]})
            if len(res['errors']) > 5:
                break
            continue
        res['runs'] += 1
        res['evaluations'] += out.info.get('evals', 1)
        for k in out.cover:
            res['cover'][k] = res['cover'].get(k, 0) + 1
        for k, v in out.faults.items():
            res['faults'][k] = res['faults'].get(k, 0) + v
        for k, v in out.probes.items():
            res['probes'][k] = res['probes'].get(k, 0) + v
        for k, v in out.info.get('knobs', {}).items():
            kk = '%s=%s' % (k, v)
            res['knobs'][kk] = res['knobs'].get(kk, 0) + 1
        res['sim_time'] += out.sim_time
        res['steps'] += out.steps
        if args.digests:
            res['digests'][str(run)] = [core.digest(case), out.digest]
        if len(res['samples']) < 2 and hasattr(mod, 'sample_view'):
            res['samples'].append(mod.sample_view(case, out))
        for sig in out.sigs():
            v = [x for x in out.violations if x.sig == sig][0]
            kf = core.known_lookup(mod.ID, sig, known)
            if kf is not None:
                ent = res['known'].setdefault(sig, {'count': 0, 'what': kf.get('description', v.msg)})
                ent['count'] += 1
                continue
            if sig in seen_sigs or len(seen_sigs) >= args.maxsigs or tries.get(sig, 0) >= 3:
                continue
            tries[sig] = tries.get(sig, 0) + 1
            small = minimise(mod, case, sig)
            o2 = mod.execute(small)
            v2 = ([x for x in o2.violations if x.sig == sig] or [v])[0]
            path = core.write_replay(mod.ID, args.seed, run, hashseed, small, v2.as_dict(),
                                     tag=core.digest(sig)[:6], minimised_from={'case_bytes': len(core.jdump(case)),
                                                     'min_bytes': len(core.jdump(small))})
            # A violation only counts if it replays in a *fresh* interpreter: state left by earlier runs of this
            # worker (a cache in the code under test) must not be part of it, and minimisation ran in this process.
            if not replays(path):
                path = core.write_replay(mod.ID, args.seed, run, hashseed, case, v.as_dict(), tag=core.digest(sig)[:6],
                                         minimised_from={'note': 'minimised case did not replay in a fresh interpreter; unminimised case kept'})
                if not replays(path):
                    res['unreplayable'].append({'run': run, 'sig': sig, 'msg': v.msg})
                    os.unlink(path)
                    continue
                v2 = v
            seen_sigs.add(sig)
            res['violations'].append({'run': run, 'sig': sig, 'msg': v2.msg, 'replay': path})
    with open(args.out, 'w') as f:
        json.dump(res, f, default=core._default)
    return 0


# ------------------------------------------------------------------ replay

def replay_main(path):
    doc = core.load_replay(path)
    want = str(doc.get('pythonhashseed', 0))
    if os.environ.get('PYTHONHASHSEED') != want:
        env = dict(os.environ, PYTHONHASHSEED=want)
        os.execve(PY, [PY, os.path.abspath(__file__), '--replay', path], env)
    mod = load_prop(doc['property'])
    out = mod.execute(doc['case'])
    sig = doc['violation']['sig']
    sigs = out.sigs()
    if sig in sigs:
        v = [x for x in out.violations if x.sig == sig][0]
        print('replay: reproduced %s: %s' % (sig, v.msg))
        kf = core.known_lookup(doc['property'], sig)
        if kf is not None:
            print('KNOWN-FINDING: property=%s %s' % (doc['property'], kf.get('description', sig)))
            return 0
        print('VIOLATION property=%s replay=%s' % (doc['property'], path))
        return 1
    if sigs:
        print('replay: recorded violation %s not reproduced; other violations: %s' % (sig, sigs))
        for s in sigs:
            if core.known_lookup(doc['property'], s) is None:
                print('VIOLATION property=%s replay=%s' % (doc['property'], path))
                return 1
        return 0
    print('replay: no violation (recorded %s not reproduced on this tree)' % sig)
    return 0


# ------------------------------------------------------------------ driver

def spawn(prop, seed, tier, widx, nworkers, nruns, wall, out, hashseed, runs=None, digests=False, maxsigs=4):
    cmd = [PY, os.path.abspath(__file__), prop, '--worker', '--seed', str(seed), '--tier', tier,
           '--widx', str(widx), '--nworkers', str(nworkers), '--nruns', str(nruns),
           '--wall', str(wall), '--out', out, '--maxsigs', str(maxsigs)]
    if runs is not None:
        cmd += ['--runs', ','.join(str(r) for r in runs)]
    if digests:
        cmd += ['--digests']
    env = dict(os.environ, PYTHONHASHSEED=str(hashseed))
    env.pop('PYTHONPATH', None)
    return subprocess.Popen(cmd, env=env, stdout=subprocess.PIPE, stderr=subprocess.PIPE)


def driver_main(args):
    t0 = time.perf_counter()
    mod = load_prop(args.prop)
    pid = mod.ID
    tier = args.tier
    seed = args.seed
    cfg = mod.tier_config(tier)
    nruns = int(os.environ.get('VERIF_RUNS', cfg['runs']))
    wall = float(os.environ.get('VERIF_BUDGET_S', cfg['wall']))
    nworkers = int(os.environ.get('VERIF_WORKERS', min(NCPU, cfg.get('workers', NCPU), max(1, nruns))))
    print('VERIF_SEED=%d property=%s tier=%s runs=%d workers=%d wall_cap=%ds' % (seed, pid, tier, nruns, nworkers, wall))
    sys.stdout.flush()
    base = os.environ.get('VERIF_SCRATCH') or tempfile.gettempdir()
    scratch = tempfile.mkdtemp(prefix='pyx12sim-%s-' % pid, dir=base)
    os.environ['VERIF_SCRATCH_RUN'] = scratch
    procs = []
    try:
        for w in range(nworkers):
            out = os.path.join(scratch, 'w%d.json' % w)
            hs = core.derive_int(seed, pid, 'hashseed', w, bits=30)
            procs.append((w, out, spawn(pid, seed, tier, w, nworkers, nruns, wall, out, hs, digests=(w == 0))))
        # determinism probe: worker 0's first runs again, other interpreter, other hash seed
        nprobe = min(cfg.get('det_probe', 6), (nruns + nworkers - 1) // nworkers)
        probe_runs = [i * nworkers for i in range(nprobe)]
        pout = os.path.join(scratch, 'probe.json')
        hs = core.derive_int(seed, pid, 'hashseed', 'probe', bits=30)
        pp = spawn(pid, seed, tier, 0, 1, nruns, wall, pout, hs, runs=probe_runs, digests=True, maxsigs=0)
        results = []
        harness_errors = []
        hard = wall + 150
        for w, out, p in procs + [(-1, pout, pp)]:
            try:
                so, se = p.communicate(timeout=max(5, hard - (time.perf_counter() - t0)))
            except subprocess.TimeoutExpired:
                p.kill()
                so, se = p.communicate()
                harness_errors.append('worker %d exceeded the hard wall limit' % w)
                continue
            if p.returncode != 0 or not os.path.exists(out):
                harness_errors.append('worker %d exit %s: %s' % (w, p.returncode, se.decode(errors='replace')[-1500:]))
                continue
            with open(out) as f:
                r = json.load(f)
            if w >= 0:
                results.append(r)
            else:
                probe = r
    finally:
        shutil.rmtree(scratch, ignore_errors=True)

    merged = {'evaluations': 0, 'runs': 0, 'cover': {}, 'faults': {}, 'probes': {}, 'sim_time': 0.0,
              'steps': 0, 'violations': [], 'known': {}, 'samples': [], 'truncated': False, 'knobs': {}}
    for r in results:
        for k in ('evaluations', 'runs', 'sim_time', 'steps'):
            merged[k] += r[k]
        for d in ('cover', 'faults', 'probes', 'knobs'):
            for k, v in r[d].items():
                merged[d][k] = merged[d].get(k, 0) + v
        merged['violations'] += r['violations']
        merged.setdefault('unreplayable', [])
        merged['unreplayable'] += r.get('unreplayable', [])
        for k, v in r['known'].items():
            e = merged['known'].setdefault(k, {'count': 0, 'what': v['what']})
            e['count'] += v['count']
        merged['samples'] += r['samples'][:1]
        merged['truncated'] |= r['truncated']
        for e in r['errors']:
            harness_errors.append('run %s: %s\n%s' % (e['run'], e['error'], e['tb']))

    # determinism verdict
    det = {'probed_runs': 0, 'generation_equal': True, 'execution_equal': True}
    if not harness_errors and results:
        d0 = results[0].get('digests', {})
        for k, v in probe.get('digests', {}).items():
            if k in d0:
                det['probed_runs'] += 1
                if d0[k][0] != v[0]:
                    det['generation_equal'] = False
                if d0[k][1] != v[1]:
                    det['execution_equal'] = False
        if not det['generation_equal'] or not det['execution_equal']:
            harness_errors.append('determinism probe failed: %r' % det)

    wall_s = time.perf_counter() - t0
    # confirm each violation by replaying in a fresh interpreter
    confirmed = []
    uniq = {}
    for v in sorted(merged['violations'], key=lambda v: (v['sig'], v['run'])):
        uniq.setdefault(v['sig'], v)
    for v in uniq.values():
        rp = subprocess.run([PY, os.path.abspath(__file__), '--replay', v['replay']],
                            stdout=subprocess.PIPE, stderr=subprocess.PIPE)
        if rp.returncode == 1:
            confirmed.append(v)
        else:
            harness_errors.append('violation %s (run %s) did not replay: exit %s %s' % (
                v['sig'], v['run'], rp.returncode, rp.stdout.decode(errors='replace')[-500:]))

    got = set(v['sig'] for v in confirmed)
    for u in merged.get('unreplayable', []):
        if u['sig'] not in got:
            got.add(u['sig'])
            harness_errors.append('violation %s (run %s) was seen in a worker but replays in no fresh interpreter '
                                  '(result depends on state left by earlier runs of that worker): %s' % (u['sig'], u['run'], u['msg'][:200]))
    write_evidence(mod, tier, seed, merged, det, wall_s, len(confirmed), nworkers, harness_errors)

    for sig, e in sorted(merged['known'].items()):
        print('KNOWN-FINDING: property=%s %s [%s] (seen %d times)' % (pid, e['what'], sig, e['count']))
    for v in confirmed:
        print('violation: %s' % v['msg'][:400])
        print('VIOLATION property=%s replay=%s' % (pid, v['replay']))
    print('%s %s: %d runs, %d evaluations, %d distinct states, %.1fs%s' % (
        pid, tier, merged['runs'], merged['evaluations'], len(merged['cover']), wall_s,
        ' (stopped at wall cap)' if merged['truncated'] else ''))
    if harness_errors:
        for h in harness_errors[:10]:
            print('HARNESS-ERROR: ' + h)
        return 1 if confirmed else 2
    if merged['runs'] == 0:
        print('HARNESS-ERROR: nothing ran')
        return 2
    return 1 if confirmed else 0


def write_evidence(mod, tier, seed, m, det, wall_s, nviol, nworkers, harness_errors):
    os.makedirs(core.EVIDENCE_DIR, exist_ok=True)
    hours = max(wall_s, 1e-9) / 3600.0
    cov = {
        'evaluations': int(m['evaluations']),
        'distinct_nontrivial': len(m['cover']),
        'rule': mod.RULE,
        'samples': m['samples'][:4] or [{'note': 'no sample recorded'}],
        'exhaustive': False,
        'simulated_runs': m['runs'],
        'runs_per_hour': int(m['runs'] / hours),
        'evaluations_per_hour': int(m['evaluations'] / hours),
        'simulated_time_s': round(m['sim_time'], 3),
        'simulator_events': m['steps'],
        'faults_fired': dict(sorted(m['faults'].items())),
        'probes_hit': dict(sorted(m['probes'].items())),
        'knob_histogram': dict(sorted(m['knobs'].items())),
        'workers': nworkers,
        'stopped_at_wall_cap': m['truncated'],
        'determinism_probe': det,
        'components': getattr(mod, 'COMPONENTS', {}),
        'known_findings_seen': {k: v['count'] for k, v in sorted(m['known'].items())},
        'top_states': sorted(m['cover'].items(), key=lambda kv: (-kv[1], kv[0]))[:12],
        'harness_errors': harness_errors[:5],
    }
    ev = {
        'property_id': mod.ID, 'tier': tier, 'seed': seed, 'level': mod.LEVEL,
        'coverage': cov, 'assumptions': mod.ASSUMPTIONS, 'wall_s': round(wall_s, 2),
        'violations': nviol,
    }
    with open(os.path.join(core.EVIDENCE_DIR, mod.ID + '.json'), 'w') as f:
        json.dump(ev, f, indent=1, sort_keys=True, default=core._default)


def main():
    ap = argparse.ArgumentParser()
    ap.add_argument('prop', nargs='?')
    ap.add_argument('--tier', default=os.environ.get('VERIF_TIER', 'quick'))
    ap.add_argument('--seed', type=int, default=int(os.environ.get('VERIF_SEED', '20260926')))
    ap.add_argument('--replay')
    ap.add_argument('--worker', action='store_true')
    ap.add_argument('--widx', type=int, default=0)
    ap.add_argument('--nworkers', type=int, default=1)
    ap.add_argument('--nruns', type=int, default=1)
    ap.add_argument('--wall', type=float, default=120)
    ap.add_argument('--out')
    ap.add_argument('--runs')
    ap.add_argument('--digests', action='store_true')
    ap.add_argument('--maxsigs', type=int, default=4)
    args = ap.parse_args()
    if args.replay:
        return replay_main(args.replay)
    if not args.prop:
        ap.error('property id required')
    if args.tier not in ('quick', 'thorough'):
        ap.error('tier must be quick or thorough')
    if args.worker:
        return worker_main(args)
    return driver_main(args)


if __name__ == '__main__':
    sys.exit(main())
