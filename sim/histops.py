"""Operations of a process history (C18) and their observable results.

run_history(spec) executes all operations of a history in this interpreter
(shared state, interleaved generators, re-entrant validation, clock / PRNG
scripts, optional map memoisation and shared params object).
run_pristine(spec) executes every single operation alone in a forked child of a
freshly imported interpreter.  Both return a list of canonical result dicts.
"""
import io
import json
import os
import sys
import tempfile
import time as _time

import core
import seams
import observe
from refmodel import tokenise as T

MASK = {'ISA': (9, 10, 13), 'GS': (4, 5, 6), 'GE': (2,), 'IEA': (2,)}


def mask_ack(text):
    """ack as a list of segments with the fields that legitimately differ between runs blanked; also returns those fields"""
    if not text:
        return [], {}
    try:
        tk = T.tokenise(text)
    except T.NotX12:
        return [['<unreadable>', text[:200]]], {}
    out = []
    free = {}
    for s in tk.segs:
        els = [list(c) for c in s.elements]
        for i in MASK.get(s.id, ()):
            if i <= len(els):
                free.setdefault('%s%02d' % (s.id, i), []).append(':'.join(els[i - 1]))
                els[i - 1] = ['#']
        out.append([s.id] + els)
    return out, free


def strip_html_date(html):
    if html is None:
        return None
    lines = html.split('\n')
    return '\n'.join(l for l in lines if 'Analysis Date:' not in l)


def canon_errors(errors):
    return sorted([[e.level, e.code, e.isa, e.gs, e.st, e.seg_id, e.seg_count, e.ele_pos, e.subele_pos, e.value] for e in errors],
                  key=lambda x: json.dumps(x, default=str))


def result_of_validation(r):
    ack, free = mask_ack(r.ack)
    return {'verdict': r.verdict, 'exc': r.exc_sig.split('@')[0] if r.exc_sig else None, 'errors': canon_errors(r.errors),
            'xml': r.xml, 'html': strip_html_date(r.html), 'ack': ack, 'ack_free': free,
            'clock': list(r.clock.handed) if r.clock else [], 'rand': list(r.rand.handed) if r.rand else []}


def snapshot(node):
    if node.type == 'seg':
        s = node.seg_data
        return ['seg', s.get_seg_id(), [[e.get_value() for e in c.elements] for c in s.elements], node.seg_count, node.cur_line_number,
                sorted([list(map(str, x[:2])) for x in node.err_seg]), sorted([list(map(str, x[:2])) for x in node.err_ele])]
    return ['loop', node.id, [snapshot(c) for c in node.children if c.type is not None]]


class Env(object):
    """per-history environment: params object (shared or fresh), map memo, clock/PRNG scripts"""

    def __init__(self, spec):
        self.spec = spec
        self.docs = spec['docs']
        self.param = None
        self.clock_pos = 0
        self.nvalid = 0
        self.depth = 0
        self.conf_files = []

    def params(self, charset, exclude=None, conf=None):
        if conf:
            # the caller keeps its options in a configuration file: a fresh parameter object is built from that file
            # (the file stays on disk for the rest of the history, as a user's configuration file would)
            import pyx12.params
            base = os.environ.get('VERIF_SCRATCH_RUN') or tempfile.gettempdir()
            fd, path = tempfile.mkstemp(prefix='conf-', suffix='.xml', dir=base)
            with os.fdopen(fd, 'w') as f:
                f.write('<?xml version="1.0"?>\n<pyx12conf>\n' + ''.join(
                    '<param name="%s"><value>%s</value><type>string</type></param>\n' % (k, v) for k, v in sorted(conf.items()))
                    + '</pyx12conf>\n')
            self.conf_files.append(path)
            p = pyx12.params.params(path)
            p.set('charset', charset)
        else:
            p = self._params(charset)
        p.set('exclude_external_codes', exclude)
        return p

    def cleanup(self):
        for path in self.conf_files:
            try:
                os.unlink(path)
            except OSError:
                pass
        self.conf_files = []

    def _params(self, charset):
        import pyx12.params
        if self.spec.get('shared_param') and self.depth == 0:
            # (an operation started re-entrantly gets its own object: changing the caller's parameters in mid-validation
            #  would change the question, not reveal history dependence)
            if self.param is None:
                self.param = pyx12.params.params()
            p = self.param
        else:
            p = pyx12.params.params()
        p.set('charset', charset)
        return p

    def clock(self):
        script = self.spec.get('clock') or [1096588800.0]
        k = self.clock_pos % len(script)
        self.clock_pos += 7
        return seams.SimClock(script[k:] + script[:k])

    def rand(self):
        vals = self.spec.get('rand') or [1]
        self.nvalid += 1
        return seams.SimRandom(vals[self.nvalid % len(vals):] + vals[:self.nvalid % len(vals)], reseed=self.nvalid * 7919)


def do_validate(env, op, callback=None):
    text = env.docs[op['doc']]
    param = env.params(op.get('charset', 'E'), op.get('exclude'), op.get('conf'))
    env.depth += 1
    try:
        r = _validate(env, op, text, param, callback)
    finally:
        env.depth -= 1
    return result_of_validation(r)


def _validate(env, op, text, param, callback):
    return observe.validate(text, sinks=tuple(op.get('sinks', ('ack',))), charset=op.get('charset', 'E'), plan=op.get('plan'),
                         clock=env.clock(), rand=env.rand(), source='sim', bufsize=op.get('bufsize', 8192), callback=callback,
                         param=param)


def gen_reader(env, op):
    import pyx12.x12file
    src = pyx12.x12file.X12Reader(seams.SimSource(env.docs[op['doc']], op.get('plan')))
    out = []
    for seg in src:
        out.append([seg.get_seg_id(), [[e.get_value() for e in c.elements] for c in seg.elements],
                    sorted([list(map(str, e[:2])) for e in src.pop_errors()])])
        yield None
    src.cleanup()
    out.append(['<cleanup>', sorted([list(map(str, e[:2])) for e in src.pop_errors()])])
    yield {'segments': out}


def gen_context(env, op):
    import pyx12.x12context
    import pyx12.error_handler
    rd = pyx12.x12context.X12ContextReader(env.params('E'), pyx12.error_handler.errh_null(),
                                           seams.SimSource(env.docs[op['doc']], op.get('plan')))
    out = []
    events = []
    for node in rd.iter_segments(op.get('loop_id')):
        out.append(snapshot(node))
        # the loop start/end event stream is an observable output of iteration too
        events.append([[e['type'], e['id']] for e in node.iterate_loop_segments()])
        if op.get('copy_trees') and node.type == 'loop':
            node.copy()          # what a consumer does before editing (README pattern); must not influence anything later
        yield None
    yield {'nodes': out, 'events': events}


def drain(gen):
    res = None
    try:
        for x in gen:
            if x is not None:
                res = x
    except Exception as e:
        return {'exc': type(e).__name__}
    return res


def do_xmlrt(env, op):
    import pyx12.xmlx12_simple
    text = env.docs[op['doc']]
    r = observe.validate(text, sinks=('xml',), charset='E', clock=env.clock(), rand=env.rand(), source='sim', param=env.params('E'))
    if r.exc is not None or not r.xml:
        return {'exc': r.exc_sig.split('@')[0] if r.exc_sig else None, 'xml': r.xml}
    sink = seams.SimSink('x')
    try:
        pyx12.xmlx12_simple.convert(io.StringIO(r.xml), sink)
    except Exception as e:
        return {'exc2': type(e).__name__, 'xml': r.xml}
    return {'xml': r.xml, 'x12': sink.getvalue()}


def do_norm(env, op):
    from props import c20
    base = os.environ.get('VERIF_SCRATCH_RUN') or tempfile.gettempdir()
    fd, path = tempfile.mkstemp(prefix='h-', suffix='.x12', dir=base)
    try:
        with os.fdopen(fd, 'w', encoding='latin-1', newline='') as f:
            f.write(env.docs[op['doc']])
        try:
            so = c20.run_norm(list(op.get('opts', [])) + [path])
        except SystemExit:
            return {'exc': 'SystemExit'}
        except Exception as e:
            return {'exc': type(e).__name__}
        return {'stdout': so}
    finally:
        try:
            os.unlink(path)
        except OSError:
            pass


def run_single(env, op):
    k = op['k']
    if k == 'validate':
        return do_validate(env, op)
    if k == 'reader':
        return drain(gen_reader(env, op))
    if k == 'context':
        return drain(gen_context(env, op))
    if k == 'xmlrt':
        return do_xmlrt(env, op)
    if k == 'norm':
        return do_norm(env, op)
    raise ValueError(k)


def flat_ops(ops):
    """the individual operations of a history, in result order"""
    out = []
    for op in ops:
        if op['k'] == 'interleave':
            out += op['members']
        elif op['k'] == 'validate' and op.get('reenter'):
            out.append(dict(op, reenter=None))
            out.append(op['reenter']['op'])
        else:
            out.append(op)
    return out


def run_history(spec):
    seams.import_pyx12()
    env = Env(spec)
    results = []
    memo_ctx = None
    if spec.get('memo'):
        import pyx12.map_if
        real = pyx12.map_if.load_map_file
        cache = {}

        def memo(map_file, param, map_path=None):
            # a map object carries its params object: it may only be reused for the same object holding the same values
            key = (map_file, map_path, id(param), param.get('charset'), param.get('exclude_external_codes'))
            if key not in cache:
                cache[key] = (param, real(map_file, param, map_path))     # keeps param alive, so its id is not recycled
            return cache[key][1]
        pyx12.map_if.load_map_file = memo
        memo_ctx = real
    try:
        for op in spec['ops']:
            if op['k'] == 'interleave':
                gens = [gen_reader(env, m) if m['k'] == 'reader' else gen_context(env, m) for m in op['members']]
                res = [None] * len(gens)
                alive = [True] * len(gens)
                order = op.get('order') or [0]
                i = 0
                while any(alive):
                    w = order[i % len(order)] % len(gens)
                    i += 1
                    if not alive[w]:
                        w = alive.index(True)
                    try:
                        x = next(gens[w])
                        if x is not None:
                            res[w] = x
                    except StopIteration:
                        alive[w] = False
                    except Exception as e:
                        res[w] = {'exc': type(e).__name__}
                        alive[w] = False
                results += res
            elif op['k'] == 'validate' and op.get('reenter'):
                inner = {}
                count = [0]
                re = op['reenter']

                def cb(seg, src, node, valid, _re=re, _inner=inner, _count=count):
                    _count[0] += 1
                    if _count[0] == _re['at'] and 'res' not in _inner:
                        _inner['res'] = run_single(env, _re['op'])
                outer = do_validate(env, op, callback=cb)
                results.append(outer)
                results.append(inner.get('res', run_single(env, re['op'])))
            else:
                results.append(run_single(env, op))
    finally:
        if memo_ctx is not None:
            import pyx12.map_if
            pyx12.map_if.load_map_file = memo_ctx
        env.cleanup()
    return results


def run_pristine(spec):
    """each operation alone, in a forked child of this freshly imported interpreter"""
    seams.import_pyx12()
    import pyx12.x12n_document      # post-import state
    import pyx12.x12context
    results = []
    for op in flat_ops(spec['ops']):
        r, w = os.pipe()
        pid = os.fork()
        if pid == 0:
            try:
                os.close(r)
                env = Env(dict(spec, shared_param=False, memo=False))
                try:
                    res = run_single(env, op)
                except Exception as e:
                    res = {'harness_exc': repr(e)}
                env.cleanup()
                with os.fdopen(w, 'w') as f:
                    json.dump(res, f, default=core._default)
            finally:
                os._exit(0)
        os.close(w)
        with os.fdopen(r) as f:
            data = f.read()
        os.waitpid(pid, 0)
        results.append(json.loads(data) if data else {'harness_exc': 'no output'})
    return results


def main():
    spec = json.load(sys.stdin)
    mode = sys.argv[1]
    res = run_history(spec) if mode == 'history' else run_pristine(spec)
    json.dump(res, sys.stdout, default=core._default)


if __name__ == '__main__':
    sys.path.insert(0, os.path.dirname(os.path.abspath(__file__)))
    main()
