"""Core of the pyx12 deterministic simulator: seeded sub-streams, event log,
case/outcome containers, minimisation helpers, replay files, known findings.

Nothing in this module imports pyx12.  Nothing here reads a wall clock or draws
from a PRNG on a logging path.
"""
import hashlib
import json
import os
import random


VERIF_DIR = os.path.dirname(os.path.dirname(os.path.abspath(__file__)))
REPLAY_DIR = os.path.join(VERIF_DIR, 'replays')
EVIDENCE_DIR = os.path.join(VERIF_DIR, 'evidence')
if os.path.realpath(os.environ.get('PYX12_REPO', '/repo')) != os.path.realpath('/repo'):
    # a sensitivity run against a scratch mutant copy: its evidence is not evidence about /repo
    import tempfile
    EVIDENCE_DIR = os.path.join(tempfile.gettempdir(), 'verif-evidence-mutant')
KNOWN_FILE = os.path.join(VERIF_DIR, 'known_findings.json')


def substream(seed, *labels):
    """Independent PRNG derived from (seed, labels).  Adding a new consumer
    never shifts the draws of another one."""
    h = hashlib.sha256(repr((int(seed),) + tuple(str(x) for x in labels)).encode()).digest()
    return random.Random(int.from_bytes(h[:16], 'big'))


def derive_int(seed, *labels, bits=31):
    h = hashlib.sha256(repr((int(seed),) + tuple(str(x) for x in labels)).encode()).digest()
    return int.from_bytes(h[:8], 'big') % (1 << bits)


def jdump(obj):
    return json.dumps(obj, sort_keys=True, ensure_ascii=True, separators=(',', ':'), default=_default)


def _default(o):
    if isinstance(o, (set, frozenset)):
        return sorted(o, key=repr)
    if isinstance(o, bytes):
        return o.decode('latin-1')
    if isinstance(o, tuple):
        return list(o)
    return repr(o)


def digest(obj):
    return hashlib.sha256(jdump(obj).encode()).hexdigest()[:16]


class EventLog(object):
    """Append-only log of what the simulated run did.  Each event gets the global
    sequence number.  The digest is what the determinism self-test compares."""

    def __init__(self, keep=400):
        self.seq = 0
        self._h = hashlib.sha256()
        self.keep = keep
        self.tail = []

    def ev(self, kind, *data):
        self.seq += 1
        rec = (self.seq, kind) + data
        self._h.update(jdump(rec).encode())
        if len(self.tail) < self.keep:
            self.tail.append(rec)
        return self.seq

    def digest(self):
        return self._h.hexdigest()[:16]


class Violation(object):
    """One observed breach.  `sig` is the stable signature used for
    minimisation ('same violation persists') and for known-finding matching."""

    def __init__(self, cls, sig, msg, detail=None):
        self.cls = cls
        self.sig = sig
        self.msg = msg
        self.detail = detail or {}

    def as_dict(self):
        return {'class': self.cls, 'sig': self.sig, 'msg': self.msg, 'detail': self.detail}


class Outcome(object):
    def __init__(self):
        self.violations = []      # [Violation]
        self.cover = set()        # state keys reached (strings)
        self.faults = {}          # fault kind -> times actually fired
        self.probes = {}          # rare-condition probes -> hit count
        self.sim_time = 0.0       # simulated seconds the clock script walked
        self.steps = 0            # simulator events
        self.digest = ''          # event log digest
        self.info = {}            # free-form, small

    def violate(self, cls, sig, msg, **detail):
        self.violations.append(Violation(cls, sig, msg, detail))

    def fault(self, kind, n=1):
        self.faults[kind] = self.faults.get(kind, 0) + n

    def probe(self, name, n=1):
        self.probes[name] = self.probes.get(name, 0) + n

    def sigs(self):
        return sorted(set(v.sig for v in self.violations))


# ---------------------------------------------------------------- minimisation

def ddmin(items, test, max_tests=400):
    """Classic delta debugging over a list.  `test(sublist)` returns True while
    the same violation persists.  Returns a 1-minimal (within budget) sublist."""
    items = list(items)
    n = 2
    tests = 0
    while len(items) >= 2 and tests < max_tests:
        chunk = max(1, len(items) // n)
        subsets = [items[i:i + chunk] for i in range(0, len(items), chunk)]
        reduced = False
        for i in range(len(subsets)):
            comp = [x for j, s in enumerate(subsets) if j != i for x in s]
            tests += 1
            if comp and test(comp):
                items = comp
                n = max(n - 1, 2)
                reduced = True
                break
            if tests >= max_tests:
                break
        if not reduced:
            if chunk == 1:
                break
            n = min(len(items), n * 2)
    return items


def shrink_greedy(candidates_fn, case, test, max_tests=300):
    """Generic greedy shrink: candidates_fn(case) yields simpler cases; the
    first that still fails (test) is adopted; repeat to a fixpoint/budget."""
    tests = 0
    progress = True
    while progress and tests < max_tests:
        progress = False
        for cand in candidates_fn(case):
            tests += 1
            if test(cand):
                case = cand
                progress = True
                break
            if tests >= max_tests:
                break
    return case


# ---------------------------------------------------------------- replay files

def write_replay(prop, seed, run, hashseed, case, violation, minimised_from=None, tag=None):
    os.makedirs(REPLAY_DIR, exist_ok=True)
    name = '%s-%s-%s%s.json' % (prop, seed, run, ('-' + tag) if tag else '')
    path = os.path.join(REPLAY_DIR, name)
    import sys
    doc = {
        'property': prop, 'seed': seed, 'run': run, 'pythonhashseed': hashseed,
        'python': '%d.%d.%d' % sys.version_info[:3],
        'case': case, 'violation': violation,
        'minimised_from': minimised_from or {},
    }
    with open(path, 'w') as f:
        json.dump(doc, f, indent=1, sort_keys=True, default=_default)
    return path


def load_replay(path):
    with open(path) as f:
        return json.load(f)


# ---------------------------------------------------------------- known findings

def load_known():
    """known_findings.json is committed and never written at run time."""
    try:
        with open(KNOWN_FILE) as f:
            doc = json.load(f)
    except FileNotFoundError:
        return []
    return doc.get('findings', [])


def known_lookup(prop, sig, known=None):
    """Return the matching *known* (not fixed) finding entry or None.  Matching
    is exact on (property, signature): a different violation of the same
    property is still reported."""
    if known is None:
        known = load_known()
    for e in known:
        if e.get('status') == 'known' and e.get('property') == prop and e.get('signature') == sig:
            return e
    return None
