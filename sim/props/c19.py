"""C19 — the HTML report shows every segment and error, with all source data escaped.

An invariant over the recorded HTML sink of simulated validation runs whose data
(valid values, offending values echoed into messages, segment ids of unknown
segments) contain < > & quotes and blanks.  Parsed with the stdlib HTML parser
and compared with the tapped error tree and the source text.
"""
import re
from html.parser import HTMLParser

import core
import seams
import docgen
import docsim
import faults as F
import workload as WL
from refmodel import tokenise as T
from props import c05 as _c05

ID = 'C19'
LEVEL = 'exploration'
RULE = ('Documents of every selectable map with 0..5 data faults, valid and offending values drawn from an alphabet containing '
        '< > & " \' and blanks, optionally one body segment re-tagged with a hostile id (<b, A&B, "x"), the envelope-level and '
        'structural damage of the shared workload (stray segments, missing SE/GE/ST, reader errors on envelope lines, id-only '
        'segments), any delimiters, HTML sink '
        'on. One evaluation = one validation + HTML parse. distinct_nontrivial = distinct (map file, sorted reported (level, code) '
        'multiset, hostile characters present in offending values) keys.')
ASSUMPTIONS = [
    'the report may only contain the tags/attributes pyx12 emits itself (html head title style link body h1 h3 p div span br a); anything else means input became markup',
    'an error message belongs "next to" its segment when it lies between the previous and the next segment line',
    'demanded in the report: segment- and element-level errors of located segments (next to their line), element errors of ISA/IEA, GS/GE, ST/SE (next to the segment their message names, not its partner), and segment-level findings the engine files on the interchange (stray segment, reader error on an envelope line); set/group/interchange count and control-number messages are not demanded',
]
COMPONENTS = {
    'real': ['pyx12.error_html.error_html', 'error_handler.err_iter', 'x12n_document'],
    'simulated': ['HTML sink', 'source device', 'clock', 'hostile data alphabet'],
    'models': ['stdlib html.parser', 'own traversal of the error tree', 'refmodel.tokenise'],
}
TAGS = {'html', 'head', 'title', 'style', 'link', 'body', 'h1', 'h3', 'p', 'div', 'span', 'br', 'a'}
CLASSES = {'seg', 'error', 'info', 'ele_err', 'segs'}
HOSTILE_IDS = ['<b', 'A&B', '"x"', "<i>", 'a<b']


def tier_config(tier):
    if tier == 'thorough':
        return {'runs': 30000, 'wall': 820, 'det_probe': 4}
    return {'runs': 3000, 'wall': 150, 'det_probe': 3}


def generate(rng, tier, run, seed=0):
    case = _c05.gen_case(rng, run, tier, alphabet=WL.HOSTILE_HTML, fault_alphabet=WL.HOSTILE_HTML, want_html=True, include_fa=True)
    if 'doc' in case and rng.random() < 0.35:
        body = [i for i, s in enumerate(case['doc']) if s['id'] not in F.ENVELOPE and s['id'] not in ('HL', 'BHT')]
        if body:
            i = rng.choice(body)
            case['doc'][i] = dict(case['doc'][i], id=rng.choice(HOSTILE_IDS))
            case['hostile_id'] = i
    if 'cfg' in case:
        case['cfg']['sinks'] = ['html'] + (['ack'] if rng.random() < 0.5 else [])
    return case


class Probe(HTMLParser):
    def __init__(self):
        HTMLParser.__init__(self, convert_charrefs=True)
        self.stack = []
        self.bad = []
        self.items = []       # ('seg'|'error'|'info', text) in document order
        self.cur = None       # (kind, [text parts], depth)
        self.closed_html = False
        self.unbalanced = []

    def handle_starttag(self, tag, attrs):
        if tag not in TAGS:
            self.bad.append('tag <%s>' % tag)
        for k, v in attrs:
            if tag == 'span' and k == 'class' and v in CLASSES:
                continue
            if tag == 'div' and ((k == 'class' and v in CLASSES) or (k == 'style' and v == '')):
                continue
            if tag == 'style' and k == 'type':
                continue
            if tag == 'link' and k in ('rel', 'href', 'type') and v in ('stylesheet', 'errors.css', 'text/css'):
                continue
            if tag == 'a' and k == 'href' and v == 'http://sourceforge.net/projects/pyx12/':
                continue
            self.bad.append('attribute %s=%r on <%s>' % (k, v, tag))
        if tag in ('br', 'link'):
            return
        if tag in ('div', 'p', 'h1', 'h3') and self.stack and self.stack[-1] == 'p':
            self.stack.pop()          # the end tag of <p> is optional in HTML
        self.stack.append(tag)
        if tag == 'span':
            cls = dict(attrs).get('class')
            if self.cur is None and cls in ('seg', 'error', 'info'):
                self.cur = [cls, [], len(self.stack)]

    def handle_startendtag(self, tag, attrs):
        if tag not in TAGS:
            self.bad.append('tag <%s/>' % tag)

    def handle_endtag(self, tag):
        if tag in ('br', 'link'):
            return
        if tag in ('body', 'html', 'div') and self.stack and self.stack[-1] == 'p':
            self.stack.pop()
        if not self.stack or self.stack[-1] != tag:
            self.unbalanced.append(tag)
            if tag in self.stack:
                while self.stack and self.stack[-1] != tag:
                    self.stack.pop()
            else:
                return
        if self.cur is not None and tag == 'span' and len(self.stack) == self.cur[2]:
            self.items.append((self.cur[0], ''.join(self.cur[1])))
            self.cur = None
        self.stack.pop()
        if tag == 'html':
            self.closed_html = True

    def handle_data(self, data):
        if self.cur is not None:
            self.cur[1].append(data)


def execute(case):
    seams.import_pyx12()
    out = core.Outcome()
    log = core.EventLog()
    if 'unsupported' in case:
        out.probe('unsupported')
        out.digest = log.digest()
        return out
    text = _c05.case_text(case)
    r = docsim.run(text, case['cfg'], case['charset'], log)
    log.ev('verdict', r.verdict, r.exc_sig, len(r.errors))
    out.sim_time = r.clock.span()
    for f in case['faults']:
        out.fault(f['kind'])
    if 'hostile_id' in case:
        out.fault('hostile_id')
    if r.exc is not None:
        out.probe('validation-did-not-complete:' + r.exc_sig)
    elif r.html is not None:
        check_html(case, text, r, out)
    hostile = ''.join(sorted(set(c for e in r.errors if e.value for c in e.value if c in '<>&"\' ')))
    out.cover.add('%s|%s|%s' % (case['entry']['file'], ','.join(sorted('%s%s' % (e.level, e.code) for e in r.errors))[:100], hostile))
    out.steps = log.seq
    out.digest = log.digest()
    return out


def norm(s):
    return s.replace('\xa0', ' ')


def check_html(case, text, r, out):
    html = r.html
    p = Probe()
    try:
        p.feed(html)
        p.close()
    except Exception as e:
        out.violate('html', 'html-unparseable', 'HTML parser failed: %s' % e)
        return
    if p.bad:
        out.violate('markup', 'input-became-markup|%s' % p.bad[0].split(' ')[0],
                    'the report contains markup pyx12 does not emit itself: %s' % '; '.join(p.bad[:4]))
        return
    if not html.lstrip().startswith('<html>') or not p.closed_html or p.stack:
        out.violate('html', 'html-incomplete', 'report is not a complete document (open elements %r, closed=%s)' % (p.stack, p.closed_html))
        return
    if p.unbalanced:
        out.violate('html', 'html-unbalanced', 'unbalanced end tags %r' % p.unbalanced[:5])
        return
    if 'X12N Error Analysis' not in html or 'pyx12 Validator' not in html:
        out.violate('html', 'html-header-footer', 'header or footer missing')
        return
    tk = T.tokenise(text)
    segs = [(k, norm(t)) for k, t in p.items]
    seg_lines = [(i, t) for i, (k, t) in enumerate(segs) if k == 'seg']
    if len(seg_lines) != len(tk.segs):
        out.violate('segments', 'segment-count', 'report lists %d segments, source has %d' % (len(seg_lines), len(tk.segs)))
        return
    for n, ((idx, t), s) in enumerate(zip(seg_lines, tk.segs)):
        piece = s.raw.lstrip('\r\n').lstrip(' ')
        want = '%d: %s%s' % (n + 1, piece, tk.seg_term)
        if t != want:
            kind = 'id' if not t.startswith('%d: %s' % (n + 1, s.id)) else 'values'
            out.violate('segments', 'segment-text|%s' % kind, 'line %d shown as %r, source segment is %r' % (n + 1, t[:120], want[:120]))
            return
    # every located segment/element error is shown next to its segment
    pos_of_line = {n + 1: idx for n, (idx, t) in enumerate(seg_lines)}
    for e in r.errors:
        if e.level not in ('seg', 'ele') or e.line is None or e.line not in pos_of_line:
            continue
        lo = pos_of_line.get(e.line - 1, -1)
        hi = pos_of_line.get(e.line + 1, len(segs))
        region = [t for k, t in segs[lo + 1:hi] if k == 'error']
        msg = norm(e.msg)
        if not any(msg in t for t in region):
            esc = 'escaped' if any(c in e.msg for c in '<>&') else 'plain'
            out.violate('errors', 'error-not-shown|%s%s|%s' % (e.level, e.code, esc),
                        'error %s %s of line %d (%r) is not shown next to its segment; messages there: %r' % (
                            e.level, e.code, e.line, e.msg[:100], [t[:80] for t in region][:4]))
            return


    # segment-level findings that the engine files on the interchange (a stray segment between envelope segments, a reader error
    # of an envelope segment itself) are still errors "reported for a segment": shown next to a segment they can belong to
    for e in r.errors:
        if e.level != 'isa' or e.code != '024' or not (e.msg or '').startswith('Segment '):
            continue
        msg = norm(e.msg)
        mm = re.match(r'Segment (\S+?)\*', e.msg) if 'not found' in e.msg else re.match(r'Segment identifier "(.*)" is invalid', e.msg)
        ok = False
        for n, (idx, t) in enumerate(seg_lines):
            sid = tk.segs[n].id
            if mm and sid != mm.group(1):
                continue
            lo = seg_lines[n - 1][0] if n > 0 else -1
            hi = seg_lines[n + 1][0] if n + 1 < len(seg_lines) else len(segs)
            if any(msg in t2 for k2, t2 in segs[lo + 1:hi] if k2 == 'error'):
                ok = True
                break
        if not ok:
            out.violate('errors', 'error-not-shown|isa024-segment', 'the segment-level finding %r (filed on the interchange) is not shown next to any segment it can belong to' % e.msg[:120])
            return
    # element errors of an envelope header/trailer pair are shown next to the segment their message names, and not next to its partner
    env_lines = {}
    for n, (idx, t) in enumerate(seg_lines):
        env_lines.setdefault(tk.segs[n].id, []).append(n)
    for e in r.errors:
        if e.level != 'ele' or e.seg_id not in ('ISA', 'GS', 'ST'):
            continue
        mm = re.search(r'\((ISA|IEA|GS|GE|ST|SE)\d\d', e.msg or '')
        if not mm:
            continue
        own = mm.group(1)
        partner = {'ISA': 'IEA', 'IEA': 'ISA', 'GS': 'GE', 'GE': 'GS', 'ST': 'SE', 'SE': 'ST'}[own]
        msg = norm(e.msg)

        def shown_at(sid):
            for n in env_lines.get(sid, []):
                lo = seg_lines[n - 1][0] if n > 0 else -1
                hi = seg_lines[n + 1][0] if n + 1 < len(seg_lines) else len(segs)
                if any(msg in t2 for k2, t2 in segs[lo + 1:hi] if k2 == 'error'):
                    return True
            return False
        if not shown_at(own):
            out.violate('errors', 'error-not-shown|envelope-ele|%s' % own, 'element error %r is not shown next to any %s segment' % (e.msg[:110], own))
            return
        twin = [x for x in r.errors if x is not e and x.level == 'ele' and norm(x.msg or '').replace(partner, own) == msg]
        if shown_at(partner) and not twin and not any(abs(a - b) == 1 for a in env_lines.get(own, []) for b in env_lines.get(partner, [])):
            out.violate('errors', 'error-misattributed|envelope-ele|%s' % own, 'element error %r of the %s is printed next to a %s segment too' % (
                e.msg[:110], own, partner))
            return
    # element errors of the set header/trailer themselves (ST02, SE01 ...) are shown next to the ST or the SE line
    tree_sets = [(ii, gi, si) for ii, isa in enumerate(r.struct) for gi, gs in enumerate(isa['gs']) for si, _ in enumerate(gs['st'])]
    src_sets = [s_ for g_ in WL.source_groups(case['doc']) for s_ in g_['sets']]
    if len(tree_sets) == len(src_sets):
        for e in r.errors:
            if e.level != 'ele' or e.seg_id != 'ST' or e.st is None or (e.isa, e.gs, e.st) not in tree_sets:
                continue
            ss = src_sets[tree_sets.index((e.isa, e.gs, e.st))]
            lines = [ss['a'] + 1] + ([ss['b'] + 1] if ss['b'] is not None else [])
            msg = norm(e.msg)
            shown = False
            for ln in lines:
                if ln not in pos_of_line:
                    continue
                lo = pos_of_line.get(ln - 1, -1)
                hi = pos_of_line.get(ln + 1, len(segs))
                if any(msg in t for k, t in segs[lo + 1:hi] if k == 'error'):
                    shown = True
            if not shown:
                out.violate('errors', 'error-not-shown|st-se-ele%s' % e.code,
                            'element error %s of the ST/SE of set %d (%r) is shown neither at the ST line nor at the SE line %r' % (
                                e.code, tree_sets.index((e.isa, e.gs, e.st)) + 1, e.msg[:100], lines))
                return


def shrink(case, still):
    return _c05.shrink(case, still)


def sample_view(case, out):
    v = _c05.sample_view(case, out)
    v['hostile_id_line'] = case.get('hostile_id')
    return v
