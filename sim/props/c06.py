"""C06 — every acknowledgement written is itself a complete, well-formed interchange.

Observation = the ack sink's write history of simulated validation runs over
(a) multiply-faulty documents whose data and offending values contain the
acknowledgement's own delimiters (~ * : ^) while the source uses others, and
(b) structurally damaged documents (the C07 catalogue).  The ack is re-read by
the reference tokeniser, recounted, re-read by the real reader and fed back to
the real validator.
"""
import io

import core
import seams
import mapspec
import docgen
import docsim
import observe
import faults as F
import workload as WL
from refmodel import ack_parser as AP
from refmodel import tokenise as T
from refmodel import envelope as E
from refmodel import element_rules as R
from props import c05 as _c05
from props import c07 as _c07

ID = 'C06'
LEVEL = 'exploration'
RULE = ('Two arms, alternating by run index: (a) documents of every non-acknowledgement map with 0..5 data faults whose values '
        '(valid and offending) are drawn from an alphabet containing ~ * : ^ while the source uses other delimiters, many '
        'errors per segment (a flood variant over-fills every position of the widest segment: 100+ element errors), mixed-version '
        'files, the shared structural damage of the C05 workload, 1..2 x 1..2 x 1..3 envelopes; (b) structurally damaged documents from '
        'the C07 catalogue. Every '
        'run validates with the ack sink on; when an acknowledgement is written it is checked. distinct_nontrivial = distinct '
        '(arm, map or base kind, ack kind, number of groups/sets in the ack, sorted error-code multiset or fault kinds) keys.')
ASSUMPTIONS = [
    'the ack must be complete (last write is the IEA) whenever anything was written to the ack sink',
    'a value containing the ack\'s component separator does not "fit" the ack element definition; acceptance on feedback is then not demanded - but only positions that hold copies of input data (ECHOED) can excuse a rejection: a value the generator chose itself must fit',
    'feedback acceptance is demanded only when every ack body segment satisfies the 997/999 map definition under refmodel.element_rules',
]
COMPONENTS = {
    'real': ['error_997_visitor', 'error_999_visitor (through X12Writer)', 'x12n_document (twice: source, then the ack fed back)',
             'X12Reader (re-read)'],
    'simulated': ['ack sink write history', 'source device', 'clock', 'PRNG', 'hostile data alphabet', 'structural faults'],
    'models': ['refmodel.tokenise', 'refmodel.envelope.recount', 'refmodel.element_rules over 997.4010.xml / 999.5010.xml', 'refmodel.ack_parser'],
}
MAXELE = {'AK1': 3, 'AK2': 3, 'AK3': 4, 'IK3': 4, 'AK4': 4, 'IK4': 4, 'AK5': 6, 'IK5': 6, 'AK9': 9, 'ST': 3, 'SE': 2, 'GS': 8, 'GE': 2,
          'IEA': 2, 'TA1': 5, 'ISA': 16}


# element positions of the acknowledgement that hold copies of input data (only these may excuse a rejected feedback)
ECHOED = {'ISA': (5, 6, 7, 8, 15), 'GS': (2, 3, 6, 7), 'AK1': (1, 2, 3), 'AK2': (1, 2, 3), 'AK3': (1, 2, 3), 'IK3': (1, 2, 3),
          'AK4': (4,), 'IK4': (4,), 'AK9': (2,), 'TA1': (1, 2, 3), 'CTX': (1, 2, 3, 4, 5, 6), 'GE': (2,), 'SE': (), 'ST': (), 'IEA': ()}


def tier_config(tier):
    if tier == 'thorough':
        return {'runs': 30000, 'wall': 820, 'det_probe': 4}
    return {'runs': 3000, 'wall': 150, 'det_probe': 3}


def generate(rng, tier, run, seed=0):
    if run % 3 != 2:
        if rng.random() < 0.12:
            # a file whose interchanges differ in version (4010 and 5010, either order): same delimiters throughout
            a = _c05.gen_case(rng, run, tier)
            b = _c05.gen_case(rng, run + 11, tier)
            if 'doc' in a and 'doc' in b:
                d = ['~', '*', ':']
                for c in (a, b):
                    c['delims'], c['eol'] = d, '\n'
                if rng.random() < 0.5:
                    a, b = b, a
                case = dict(a, arm='mixed', second=b, charset='E')
                case['cfg']['sinks'] = ['ack']
                return case
        plain = rng.random() < 0.3
        case = _c05.gen_case(rng, run, tier, alphabet=None if plain else WL.HOSTILE_X12, fault_alphabet=None if plain else WL.HOSTILE_X12)
        case['arm'] = 'hostile'
        if 'doc' in case and plain and rng.random() < 0.15:
            # many errors in one segment: every position the map defines for the widest segment of the document is over-filled
            m = mapspec.load_map(case['entry']['file'])
            best = None
            for k, s_ in enumerate(case['doc']):
                node = m.by_uid.get(s_.get('uid', -1))
                if node is None or s_['id'] in F.ENVELOPE or s_['id'] in ('HL', 'LX', 'BHT'):
                    continue
                leaves = sum(len(ch.children) if ch.kind == 'composite' else 1 for ch in node.children)
                if best is None or leaves > best[0]:
                    best = (leaves, k, node)
            if best is not None and best[0] >= 40:
                _, k, node = best
                quals = set(q[0] for q in mapspec.qualifiers(node))
                vals = []
                for i, ch in enumerate(node.children):
                    old = case['doc'][k]['vals'][i] if i < len(case['doc'][k]['vals']) else ''
                    if ch.kind == 'composite':
                        o = old if isinstance(old, list) else [old]
                        vals.append([(o[j] if j < len(o) and ((i + 1, j + 1) in quals) else 'Q' * (sc.max_len + 1 if sc.max_len < 40 else 41))
                                     for j, sc in enumerate(ch.children)])
                    else:
                        vals.append(old if (i + 1, None) in quals else 'Q' * (ch.max_len + 1 if ch.max_len < 40 else 41))
                case['doc'][k]['vals'] = vals
                case['faults'] = case['faults'] + [{'kind': 'flood', 'line': k, 'ele': None, 'comp': None, 'code': None, 'seg_id': case['doc'][k]['id']}]
        if 'doc' in case and rng.random() < 0.1:
            # many errors on one set: a later set of a group repeats an earlier control number, names another transaction
            # type, and its trailer disagrees in count and (over-long) control number - six or more distinct set-level codes
            # for one AK5/IK5, which has room for five
            cands = [g_ for g_ in WL.source_groups(case['doc']) if len(g_['sets']) > 1]
            if cands:
                g_ = rng.choice(cands)
                j = rng.randrange(1, len(g_['sets']))
                first, later = g_['sets'][rng.randrange(0, j)], g_['sets'][j]
                if later['se'] is not None and len(later['se']['vals']) > 1 and len(later['st']['vals']) > 1:
                    later['st']['vals'][1] = first['st']['vals'][1]
                    later['st']['vals'][0] = '834' if later['st']['vals'][0] != '834' else '835'
                    later['se']['vals'][1] = '00012345678'
                    if later['se']['vals'][0].isdigit():
                        later['se']['vals'][0] = str(int(later['se']['vals'][0]) + 3)
                    case['faults'] = case['faults'] + [{'kind': 'set_pileup', 'line': later['a'], 'ele': None, 'comp': None, 'code': None, 'seg_id': 'ST'}]
        if 'doc' in case:
            # the source must not use ~ * : itself when its data contain them: pick_delims already avoids data characters
            case['cfg']['sinks'] = ['ack']
            if plain and case['entry']['icvn'] == '00501':
                # a 5010 source whose repetition separator is one of the acknowledgement's own delimiters
                data = set()
                for s_ in case['doc']:
                    for i, v in enumerate(s_['vals']):
                        if s_['id'] == 'ISA' and i in (10, 15):
                            continue
                        for x in (v if isinstance(v, list) else [v]):
                            data.update(x)
                cands = [c for c in ['*', ':', '~', '!', '`'] if c not in case['delims'] and c not in data]
                if cands:
                    rep = rng.choice(cands)
                    for s_ in case['doc']:
                        if s_['id'] == 'ISA' and len(s_['vals']) > 10:
                            s_['vals'][10] = rep
                    case['rep'] = rep
        return case
    case = _c07.generate(rng, tier, run, seed)
    case['arm'] = 'structural'
    case['entry_point'] = 'validate'
    case['cfg']['sinks'] = ['ack'] + [s for s in case['cfg']['sinks'] if s != 'ack']
    return case


def ack_map_for(kind):
    return mapspec.load_map('997.4010.xml' if kind == '997' else '999.5010.xml')


def body_fits(a, tk):
    """do all body segments satisfy the ack map's own definitions?"""
    m = ack_map_for(a.kind)
    icvn = '00501' if a.kind == '999' else '00401'
    nodes = {}
    for n in mapspec.walk(m):
        if n.kind == 'segment' and n.id not in nodes:
            nodes[n.id] = n
    icvn = '00501' if a.kind == '999' else '00401'
    ctl = mapspec.load_map('x12.control.%s.xml' % icvn)
    for n in mapspec.walk(ctl):
        if n.kind == 'segment' and n.id == 'ISA':
            nodes['ISA'] = n
    for s in tk.segs:
        node = nodes.get(s.id)
        if node is None:
            return False, 'segment %s not in the %s map' % (s.id, a.kind)
        vals = [c if len(c) > 1 else c[0] for c in s.elements]
        errs, dc, syn = R.segment_errors(node, vals, 'E', icvn, m.codes)
        if errs or syn:
            own = [e for e in errs if e[0] not in ECHOED.get(s.id, ())]
            if own:
                # a value the generator of the acknowledgement chose itself (not copied from the input) does not fit its own map
                return 'own', '%s%02d holds %r, which is not a copy of input data and does not fit the %s map (%r)' % (
                    s.id, own[0][0], vals[own[0][0] - 1] if own[0][0] - 1 < len(vals) else None, a.kind, own[0])
            return False, '%s: %r %r' % (s.id, sorted(errs, key=repr)[:3], syn[:2])
    return True, ''


def check_ack(ack_sink, r, out, log, arm):
    text = ack_sink.getvalue()
    writes = [w for w in ack_sink.writes if w.strip('\r\n') != '']
    if text == '':
        return None
    # (5) completeness
    try:
        tk = T.tokenise(text)
    except T.NotX12 as e:
        out.violate('ack', 'ack-unreadable', 'ack sink received text that is not a readable interchange: %s: %r' % (e, text[:80]))
        return None
    if not tk.segs or tk.segs[-1].id != 'IEA':
        last = tk.segs[-1].id if tk.segs else None
        out.violate('ack', 'ack-incomplete|last=%s' % last, 'acknowledgement stops after %r: the visitor died half-way (%d segments written)' % (
            last, len(tk.segs)))
        return None
    # (1) one write per segment; echoed values never add elements or segments
    if len(writes) != len(tk.segs):
        out.violate('ack', 'ack-segment-split', '%d writes produced %d segments: a copied value contains the segment terminator' % (
            len(writes), len(tk.segs)))
        return None
    for s in tk.segs:
        mx = MAXELE.get(s.id)
        if mx is None:
            out.violate('ack', 'ack-unknown-segment|%s' % s.id[:3], 'ack contains segment %r' % s.id)
            return None
        if len(s.elements) > mx:
            out.violate('ack', 'ack-element-split|%s' % s.id, '%s has %d elements (max %d): a copied value contains the element separator: %r' % (
                s.id, len(s.elements), mx, s.raw[:80]))
            return None
    try:
        a = AP.parse(text)
    except T.NotX12:
        return None
    # a copied value must not split a simple element of the ack into components either (it would no longer fit
    # the ack's own definition although the source value did)
    simple = {'AK1': (1, 2, 3), 'AK2': (1, 2, 3), 'AK3': (1, 2, 3, 4), 'IK3': (1, 2, 3, 4), 'AK4': (2, 3, 4), 'IK4': (2, 3, 4)}
    if a.kind == '997':
        simple['AK4'] = (1, 2, 3, 4) if False else (2, 3, 4)
    for s in tk.segs:
        for k in simple.get(s.id, ()):
            if k <= len(s.elements) and len(s.elements[k - 1]) > 1:
                out.violate('ack', 'ack-component-split|%s%02d' % (s.id, k), '%s%02d is a simple element but the copied value %r splits it into components' % (
                    s.id, k, tk.subele_term.join(s.elements[k - 1])))
                return None
    # AK404/IK404 equals the offending value
    echoed = []
    for st in a.sets:
        for tx in st['tx']:
            for sl in tx['segs']:
                for el in sl['eles']:
                    if len(el.elements) >= 4:
                        echoed.append(':'.join(el.elements[3]))
    want_vals = [e.value for e in r.errors if e.level == 'ele' and e.value and e.seg_id not in ('ISA', 'GS', 'ST', 'SE', 'GE', 'IEA')]
    delims = '~*:^' if a.kind == '999' else '~*:'
    for v in want_vals:
        if any(c in v for c in '\r\n'):
            continue
        # the ack's own delimiters cannot be echoed; they may be replaced, nothing else may change
        cv = ''.join(' ' if c in delims else c for c in v)
        if cv.strip(' ') == '':
            continue        # nothing but delimiters of the acknowledgement: there is nothing left to echo
        if cv not in echoed and cv.rstrip() not in echoed and cv.strip(' ') not in echoed and v not in echoed:
            out.violate('ack', 'echo-altered', 'offending value %r is not echoed (delimiters aside) verbatim (echoed: %r)' % (v, echoed[:6]))
            return None
    for v in want_vals:
        if any(c in v for c in '\r\n') or v != v.strip(' '):
            continue
        cv = ''.join(' ' if c in delims else c for c in v)
        if cv != cv.strip(' ') and cv.strip(' ') != '' and cv in echoed and cv.strip(' ') not in echoed:
            # the source value had no blank at its ends; replacing a delimiter there by a blank yields a value the
            # acknowledgement's own map refuses (leading / trailing spaces) although the source value fitted
            out.violate('ack', 'echo-blank-ended', 'offending value %r is echoed as %r: a blank end the source value did not have' % (v, cv))
            return None
    # (2) independent recount
    flat = [[s.id] + [tk.subele_term.join(c) for c in s.elements] for s in tk.segs]
    rc = E.recount(flat)
    bad = [e for e in rc.errors if (e[1], e[2]) in E.TRACKED]
    blank_gs06 = False      # (a blank source GS06 used to be tolerated here; it is a real envelope error of the 997 - /repo fix)
    if not rc.nested or bad:
        out.violate('ack', 'ack-recount|%s' % (','.join(sorted(set('%s%s' % (e[1], e[2]) for e in bad))) or 'improper'),
                    'independent recount of the ack finds %r (nested=%s)' % (bad, rc.nested))
        return None
    # (3) the real reader accepts it
    import pyx12.x12file
    try:
        rd = pyx12.x12file.X12Reader(io.StringIO(text))
        errs = []
        for seg in rd:
            errs += [(e[0], e[1]) for e in rd.pop_errors()]
        rd.cleanup()
        errs += [(e[0], e[1]) for e in rd.pop_errors()]
    except Exception as e:
        out.violate('ack', 'ack-reread-exception|' + observe.exc_sig(e), 'reader raised on the ack: %s' % e)
        return None
    errs = sorted(set(e for e in errs if e in E.TRACKED and not (blank_gs06 and e == ('gs', '4'))))
    if errs:
        out.violate('ack', 'ack-reread-envelope|%s' % ','.join('%s%s' % e for e in errs), 'reader reports %r on the ack' % errs)
        return None
    # (4) fed back to the validator
    r2 = observe.validate(text, sinks=(), charset='E', log=None, source='stringio')
    import pyx12.errors
    if r2.exc is not None:
        if isinstance(r2.exc, pyx12.errors.EngineError) and str(r2.exc).startswith('Map not found'):
            out.violate('ack', 'ack-selects-no-map|%s' % a.kind, 'fed back, the ack selects no map: %s' % r2.exc)
        else:
            out.violate('ack', 'ack-feedback-exception|' + r2.exc_sig, 'fed back, validation raised %s: %s' % (r2.exc_sig, r2.exc))
        return a
    fits, why = body_fits(a, tk)
    if fits == 'own':
        out.violate('ack', 'ack-own-value-unfit|%s' % why.split(' ')[0], 'the acknowledgement\'s own data do not fit its map: %s' % why)
        return a
    if fits and (r2.verdict is not True or r2.errors):
        e = r2.errors[0] if r2.errors else None
        out.violate('ack', 'ack-rejected-on-feedback|%s|%s%s' % (a.kind, e.level if e else '', e.code if e else ''),
                    'the ack fits its own map but is rejected when fed back: %r %s' % (e, e.msg if e else ''))
    if not fits:
        out.probe('ack-body-does-not-fit')
    return a


def execute(case):
    seams.import_pyx12()
    out = core.Outcome()
    log = core.EventLog()
    if 'unsupported' in case:
        out.probe('unsupported')
        out.digest = log.digest()
        return out
    arm = case.get('arm')
    if arm in ('hostile', 'mixed'):
        text = _c05.case_text(case)
        if arm == 'mixed':
            text += _c05.case_text(case['second'])
            out.fault('mixed-versions')
        if case.get('rep'):
            out.fault('exotic-repetition:' + case['rep'])
        for f in case['faults']:
            out.fault(f['kind'])
    else:
        text = case['text'] if case.get('eof') is None else case['text'][:case['eof']]
        for f in case['faults']:
            out.fault(f)
    cfg = case['cfg']
    if cfg.get('kind') == 'path':
        cfg = dict(cfg, kind='sim')
    r = docsim.run(text, cfg, case.get('charset', 'E'), log)
    log.ev('verdict', r.verdict, r.exc_sig, len(r.errors))
    out.sim_time = r.clock.span()
    a = None
    sink = r.sinks.get('ack')
    if sink is not None and sink.writes:
        out.probe('ack-written')
        a = check_ack(sink, r, out, log, arm)
    key = '%s|%s|%s|%s' % (arm, case.get('map') or case['entry']['file'], a.kind if a else 'none',
                           ','.join(sorted('%s%s' % (e.level, e.code) for e in r.errors))[:120] if arm in ('hostile', 'mixed')
                           else ','.join(sorted(set(case['faults']))))
    out.cover.add(key)
    out.info['knobs'] = {'arm': arm}
    out.steps = log.seq
    out.digest = log.digest()
    return out


def shrink(case, still):
    if case.get('arm') == 'structural':
        return _c07.shrink(case, still)
    return _c05.shrink(case, still)


def sample_view(case, out):
    if case.get('arm') == 'structural':
        return dict(_c07.sample_view(case, out), arm='structural')
    return dict(_c05.sample_view(case, out), arm='hostile')
