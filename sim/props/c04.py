"""C04 — envelope, control-number and counter checks are exact.

The segment stream is treated as a message stream: a consistent envelope
skeleton gets 0..3 message faults (corrupt / duplicate / drop / reorder /
orphan).  Oracle: refmodel.envelope.recount, an independent sequential
recount.  Observed at reader level: pop_errors() after each segment and after
cleanup().
"""
import core
import seams
import envgen
from refmodel import envelope as E
from props import c01 as _c01

ID = 'C04'
LEVEL = 'fault_enumeration'
RULE = ('Consistent envelope skeletons (1..3 interchanges x 0..3 groups x 0..4 sets x 0..8 body segments, HL trees, CLM/LX '
        'runs) with 0..3 injected message faults from a 25-kind catalogue (control number changed/duplicated/blank/'
        'non-numeric, count off/non-numeric/empty/missing, header or trailer dropped/duplicated/swapped, orphan trailer, '
        'truncation, HL01 gap/repeat, HL02 closed/later/non-numeric, LX gap, body segment dropped/duplicated/emptied, claim header '
        'dropped, counts that only a lenient parser reads as numbers: +1, 1_2), read through '
        'the chunking seam. quick/thorough also enumerate every single fault kind at every applicable position of a base '
        'skeleton. distinct_nontrivial = distinct (sorted fault-kind multiset, nesting class, sorted expected error '
        'multiset) keys.')
ASSUMPTIONS = [
    'refmodel.envelope.recount (DESIGN A.2) is the independent recount',
    'counts and control numbers are generated only in canonical decimal form or clearly wrong/non-numeric; forms such as 01 are not exercised',
    'an HL02 naming an HL under an earlier root (blank-parent) subtree is treated as undecided by the statement (HL2 comparison skipped for that run)',
    'errors are compared as a whole-run multiset of (level, code); the statement does not fix at which segment an error is reported',
]
COMPONENTS = {
    'real': ['pyx12.x12file.X12Reader/X12Base', 'pyx12.rawx12file.RawX12File', 'pyx12.segment.Segment'],
    'simulated': ['source device (SimSource chunk plans)', 'message faults on the segment stream'],
    'models': ['refmodel.envelope.recount'],
}


def tier_config(tier):
    if tier == 'thorough':
        return {'runs': 120000, 'wall': 780, 'det_probe': 12}
    return {'runs': 30000, 'wall': 150, 'det_probe': 6}


# ------------------------------------------------------------------ faults

ENV = ('ISA', 'GS', 'ST', 'SE', 'GE', 'IEA')
CTL_IDX = {'ISA': 13, 'GS': 6, 'ST': 2, 'SE': 2, 'GE': 2, 'IEA': 2}
FAULTS = ['ctl_change', 'ctl_dup', 'ctl_blank', 'ctl_nonnum', 'count_off', 'count_nonnum', 'count_empty',
          'count_missing', 'drop_header', 'drop_trailer', 'dup_header', 'dup_trailer', 'swap_env', 'orphan_trailer',
          'truncate', 'hl01_gap', 'hl01_repeat', 'hl02_closed', 'hl02_later', 'hl02_nonnum', 'hl02_absent', 'lx_gap',
          'body_drop', 'body_dup', 'trailer_ctl_missing', 'body_empty', 'clm_drop']


def idxs(segs, pred):
    return [i for i, s in enumerate(segs) if pred(i, s)]


def apply_fault(segs, kind, rng, pos=None):
    """Apply one fault in place.  Returns True iff it fired and changed the
    stream.  `pos` (an index into the applicable positions) makes the choice
    explicit for enumeration; otherwise the PRNG picks."""
    def pick(cands):
        if not cands:
            return None
        if pos is not None:
            return cands[pos] if pos < len(cands) else None
        return rng.choice(cands)

    if kind in ('ctl_change', 'ctl_blank', 'ctl_nonnum'):
        i = pick(idxs(segs, lambda i, s: s[0] in ENV and i > 0 and len(s) > CTL_IDX[s[0]]))
        if i is None:
            return False
        s = segs[i]
        k = CTL_IDX[s[0]]
        old = s[k]
        width = len(old)
        if kind == 'ctl_change':
            new = str(int(old) + rng.randint(1, 7)).rjust(width, '0') if old.isdigit() else 'X' + old[1:]
        elif kind == 'ctl_blank':
            new = ' ' * width if s[0] == 'ISA' else ''
        else:
            new = ('A' * width) if s[0] == 'ISA' else 'AB'
        s[k] = new
        return new != old
    if kind == 'ctl_dup':
        # make a header's control number equal to that of the previous header of the same kind
        cands = []
        last = {}
        for i, s in enumerate(segs):
            if s[0] in ('ISA', 'GS', 'ST') and len(s) > CTL_IDX[s[0]]:
                if s[0] in last and i > 0:
                    cands.append((i, last[s[0]]))
                last[s[0]] = i
        c = pick(cands)
        if c is None:
            return False
        i, j = c
        k = CTL_IDX[segs[i][0]]
        if segs[i][k] == segs[j][k]:
            return False
        segs[i][k] = segs[j][k]
        return True
    if kind in ('count_off', 'count_nonnum', 'count_empty', 'count_missing', 'trailer_ctl_missing'):
        i = pick(idxs(segs, lambda i, s: s[0] in ('SE', 'GE', 'IEA') and len(s) > 1))
        if i is None:
            return False
        s = segs[i]
        if kind == 'count_off':
            if not s[1].isdigit():
                return False
            d = rng.choice([-3, -2, -1, 1, 2, 3])
            v = int(s[1]) + d
            if v < 0:
                v = int(s[1]) + abs(d)
            s[1] = str(v)
        elif kind == 'count_nonnum':
            if rng.random() < 0.5 and s[1].isdigit():
                # not a number in X12 (N0: digits, optional leading minus), although a lenient parser reads the declared count from it
                v = s[1]
                s[1] = rng.choice(['+' + v, ' ' + v, v + ' ', v[0] + '_' + v[1:] if len(v) > 1 else '+' + v, '+0' + v])
            else:
                s[1] = rng.choice(['X', '1A', '-', 'I'])
        elif kind == 'count_empty':
            s[1] = ''
        elif kind == 'count_missing':
            del s[1:]
        else:
            if len(s) < 3:
                return False
            del s[2:]
        return True
    if kind in ('drop_header', 'dup_header'):
        i = pick(idxs(segs, lambda i, s: s[0] in ('ISA', 'GS', 'ST') and i > 0))
        if i is None:
            return False
        if kind == 'drop_header':
            del segs[i]
        else:
            segs.insert(i + 1, list(segs[i]))
        return True
    if kind in ('drop_trailer', 'dup_trailer'):
        i = pick(idxs(segs, lambda i, s: s[0] in ('SE', 'GE', 'IEA')))
        if i is None:
            return False
        if kind == 'drop_trailer':
            del segs[i]
        else:
            segs.insert(i + 1, list(segs[i]))
        return True
    if kind == 'swap_env':
        i = pick(idxs(segs, lambda i, s: i > 0 and i + 1 < len(segs) and s[0] in ENV and segs[i + 1][0] in ENV
                      and s[0] != segs[i + 1][0]))
        if i is None:
            return False
        segs[i], segs[i + 1] = segs[i + 1], segs[i]
        return True
    if kind == 'orphan_trailer':
        t = rng.choice([['SE', '2', '0001'], ['GE', '1', '1'], ['IEA', '1', '000000001'], ['SE'], ['GE'], ['IEA']])
        where = pick(list(range(1, len(segs) + 1)))
        if where is None:
            return False
        segs.insert(where, list(t))
        return True
    if kind == 'truncate':
        where = pick(list(range(1, len(segs))))
        if where is None:
            return False
        del segs[where:]
        return True
    if kind in ('hl01_gap', 'hl01_repeat', 'hl02_closed', 'hl02_later', 'hl02_nonnum', 'hl02_absent'):
        i = pick(idxs(segs, lambda i, s: s[0] == 'HL' and len(s) > 2))
        if i is None:
            return False
        s = segs[i]
        if kind == 'hl01_gap':
            s[1] = str(int(s[1]) + rng.randint(1, 3))
        elif kind == 'hl01_repeat':
            if s[1] == '1':
                s[1] = '0'
            else:
                s[1] = str(int(s[1]) - 1)
        elif kind == 'hl02_later':
            s[2] = str(int(s[1]) + rng.randint(0, 3))
        elif kind == 'hl02_nonnum':
            s[2] = rng.choice(['X', '1A', ' ', '+' + s[2], s[2] + '_0'])
        elif kind == 'hl02_absent':
            del s[2:]           # the segment ends before HL02: a root, like a blank HL02
        else:
            # a parent that exists but whose subtree is closed: any earlier HL of this set not on the chain
            j = i - 1
            chain = []
            cur = s[2]
            earlier = []
            while j >= 0 and segs[j][0] != 'ST':
                if segs[j][0] == 'HL':
                    earlier.append(segs[j])
                j -= 1
            byid = {h[1]: h for h in earlier}
            while cur and cur in byid and cur not in chain:
                chain.append(cur)
                cur = byid[cur][2] if len(byid[cur]) > 2 else ''
            cands = [h[1] for h in earlier if h[1] not in chain]
            if not cands:
                return False
            new = rng.choice(sorted(cands))
            if new == s[2]:
                return False
            s[2] = new
        return True
    if kind == 'lx_gap':
        i = pick(idxs(segs, lambda i, s: s[0] == 'LX'))
        if i is None:
            return False
        segs[i][1] = str(int(segs[i][1]) + rng.randint(1, 2))
        return True
    if kind == 'body_empty':
        # a body segment that has an id but no data still counts as a segment
        i = pick(idxs(segs, lambda i, s: s[0] not in ENV and s[0] not in ('HL', 'LX', 'CLM') and len(s) > 1))
        if i is None:
            return False
        segs[i] = [segs[i][0]] + rng.choice([[], [''], ['', '']])
        return True
    if kind == 'clm_drop':
        # a claim header is lost: its service lines follow whatever came before (the set header, or the previous claim)
        i = pick(idxs(segs, lambda i, s: s[0] == 'CLM' and i + 1 < len(segs) and segs[i + 1][0] == 'LX'))
        if i is None:
            return False
        del segs[i]
        return True
    if kind in ('body_drop', 'body_dup'):
        i = pick(idxs(segs, lambda i, s: s[0] not in ENV and s[0] not in ('HL', 'LX', 'CLM')))
        if i is None:
            return False
        if kind == 'body_drop':
            del segs[i]
        else:
            segs.insert(i + 1, list(segs[i]))
        return True
    raise ValueError(kind)


# ------------------------------------------------------------------ generation

ENUM_POS = 25


def enum_runs(tier):
    nbase = 24 if tier == 'thorough' else 4
    return nbase * len(FAULTS) * ENUM_POS


def generate(rng, tier, run, seed=0):
    icvn = rng.choice(['00401', '00501'])
    fired = []
    if run < enum_runs(tier):
        # enumeration arm: every fault kind at every applicable position of a base skeleton
        per = len(FAULTS) * ENUM_POS
        brng = core.substream(seed, ID, 'base', run // per)
        segs = envgen.gen_skeleton(brng, brng.choice(['00401', '00501']), max_isa=2, max_gs=2, max_st=2, max_body=6)
        k = run % per
        kind = FAULTS[k % len(FAULTS)]
        if apply_fault(segs, kind, rng, pos=k // len(FAULTS)):
            fired.append(kind)
    else:
        segs = envgen.gen_skeleton(rng, icvn)
        if len(segs) > 120:
            segs = envgen.gen_skeleton(rng, icvn, max_isa=1, max_gs=2, max_st=2)
        nf = rng.choice([0, 1, 1, 1, 2, 2, 3])
        for _ in range(nf):
            kind = rng.choice(FAULTS)
            if apply_fault(segs, kind, rng):
                fired.append(kind)
    seg_term = rng.choice(['~', '~', '\n', '!'])
    eol = rng.choice(['', '\n', '\r\n']) if seg_term != '\n' else ''
    text = envgen.serialise(segs, seg_term, '*', ':', eol)
    plan = _c01.gen_plan(rng, text, 8192, seg_term)
    full = rng.random() < 0.08
    case = {'segs': segs, 'faults': fired, 'seg_term': seg_term, 'eol': eol, 'plan': plan,
            'check_lx': True if full else rng.random() < 0.7, 'bufsize': rng.choice([8192, 8192, 64, 7]), 'full': full}
    if eol and rng.random() < 0.06:
        # fixed-width records: blanks pad every line between the terminator and the line break (the next segment then
        # starts with blanks - a segment-level remark, the envelope findings are the same)
        case['eol'] = rng.choice([' ', '   ']) + eol
        case['plan'] = _c01.gen_plan(rng, render(case), 8192, seg_term)
    if rng.random() < 0.08 and len(segs[-1]) > 1 and segs[-1][-1].strip() != '':
        # stream fault: the input ends right after the last segment's data, its terminator never arrives; the segments
        # (and so every envelope finding) are the same
        case['noterm'] = True
        case['plan'] = _c01.gen_plan(rng, render(case), 8192, seg_term)
    return case


def render(case):
    text = envgen.serialise(case['segs'], case['seg_term'], '*', ':', case['eol'])
    if case.get('noterm') and len(case['segs']) > 1:      # the ISA's own terminator is part of the 106-character header
        text = text[:len(text) - len(case['seg_term'] + case['eol'])]
    return text


# ------------------------------------------------------------------ execution

def observe_reader(text, plan, bufsize, check_lx, log):
    """-> (per-segment error lists, cleanup errors) or raises"""
    import pyx12.x12file
    with seams.bufsize(bufsize):
        src = pyx12.x12file.X12Reader(seams.SimSource(text, plan, log=log))
        src.check_837_lx = check_lx
        per = []
        for seg in src:
            per.append((seg.get_seg_id(), [(e[0], e[1]) for e in src.pop_errors()]))
        src.cleanup()
        tail = [(e[0], e[1]) for e in src.pop_errors()]
    return per, tail


def execute(case):
    seams.import_pyx12()
    import pyx12.errors
    out = core.Outcome()
    log = core.EventLog()
    segs = case['segs']
    text = render(case)
    rc = E.recount(segs, case['check_lx'])
    for f in case['faults']:
        out.fault(f)
    if case.get('noterm'):
        out.fault('stream:last_terminator_missing')
    if case['eol'].startswith(' '):
        out.fault('layout:blank-padded-lines')
    if case.get('full'):
        # the same stream through a full validation: the envelope errors must reach the error tree (isa/gs/st lists,
        # HL/LX as segment errors); the body segments of a skeleton are not map conformant, which is irrelevant here
        import observe
        r = observe.validate(text, sinks=(), plan=case['plan'], log=log, bufsize=case['bufsize'])
        out.probe('full-validation')
        if r.exc is not None:
            out.probe('full-validation-raised')      # totality is C07's business
            out.digest = log.digest()
            return out
        got = {}
        for e in r.errors:
            k = (e.level, e.code)
            if k == ('isa', '024') and (e.msg or '').startswith(('My HL count', 'HL parent', 'Your 2400/LX01')):
                # a reader finding about an HL / LX that stands outside any set: filed on the interchange, still the same finding
                k = ('seg', 'HL1' if e.msg.startswith('My HL') else ('HL2' if e.msg.startswith('HL parent') else 'LX'))
                out.probe('full-reader-024')
            if k == ('isa', '024') and (e.msg or '').startswith(('Mandatory ', 'Segment ', 'Loop ')):
                # a map-walker finding about a segment outside any set (the skeleton's body is not map conformant; an interchange
                # without a group misses its mandatory GS loop): content, not one of the reader's envelope checks
                out.probe('full-walker-024')
                continue
            if k in E.TRACKED:
                got[k] = got.get(k, 0) + 1
        want = rc.multiset()
        if rc.nested:
            g, w = dict(got), dict(want)
            if g != w:
                missing = sorted(k for k in w if g.get(k, 0) < w[k])
                extra = sorted(k for k in g if g[k] > w.get(k, 0))
                out.violate('mismatch', 'full|missing=%s|extra=%s' % (','.join('%s%s' % k for k in missing), ','.join('%s%s' % k for k in extra)),
                            'full validation of a properly nested stream: error tree holds %s, independent recount finds %s (faults %s)' % (
                                sorted(g.items()), sorted(w.items()), case['faults']))
        elif not got and not [e for e in r.errors if e.level in ('isa', 'gs', 'st')]:
            out.violate('silent', 'full|silent-on-improper-nesting', 'full validation: improper nesting but no envelope error in the tree (faults %s)' % case['faults'])
        out.cover.add('full|%s|%s' % (','.join(sorted(case['faults'])), 'nested' if rc.nested else 'improper'))
        out.steps = log.seq
        out.digest = log.digest()
        return out
    try:
        per, tail = observe_reader(text, case['plan'], case['bufsize'], case['check_lx'], log)
    except pyx12.errors.X12Error as e:
        # documented refusal: a later ISA without 16 elements (or a damaged header)
        bad_isa = any(s[0] == 'ISA' and len(s) != 17 for s in segs)
        if not bad_isa:
            out.violate('refused', 'refused|X12Error', 'X12Error on a readable stream: %s' % e)
        out.digest = log.digest()
        return out
    except seams.SimStall as e:
        out.violate('stall', 'stall', str(e))
        out.digest = log.digest()
        return out
    except Exception as e:
        out.violate('exception', 'exception|' + _c01.exc_sig(e), '%s: %s (faults %s)' % (_c01.exc_sig(e), e, case['faults']))
        out.digest = log.digest()
        return out
    got = {}
    for sid, errs in per:
        for e in errs:
            if e in E.TRACKED:
                got[e] = got.get(e, 0) + 1
    for e in tail:
        if e in E.TRACKED:
            got[e] = got.get(e, 0) + 1
    log.ev('errors', sorted(got.items()))
    want = rc.multiset()
    if rc.nested:
        g, w = dict(got), dict(want)
        if rc.hl2_dontcare:
            out.probe('hl2-parent-in-closed-tree')      # a parent under an earlier root: closed, so wrong (no longer relaxed)
        if not case['check_lx']:
            g.pop(('seg', 'LX'), None)
        if g != w:
            missing = sorted(k for k in w if g.get(k, 0) < w[k])
            extra = sorted(k for k in g if g[k] > w.get(k, 0))
            sig = 'mismatch|missing=%s|extra=%s' % (','.join('%s%s' % k for k in missing), ','.join('%s%s' % k for k in extra))
            out.violate('mismatch', sig, 'properly nested stream: reader reported %s, independent recount finds %s (faults %s)' % (
                sorted(g.items()), sorted(w.items()), case['faults']))
        if not case['faults'] and got:
            out.violate('spurious', 'spurious-on-consistent', 'consistent envelope drew %s' % sorted(got.items()))
    else:
        if not got:
            out.violate('silent', 'silent-on-improper-nesting',
                        'headers/trailers do not nest properly but no envelope error was reported (faults %s)' % case['faults'])
        out.probe('improper-nesting')
    out.info['enum'] = True
    out.cover.add('%s|%s|%s' % (','.join(sorted(case['faults'])), 'nested' if rc.nested else 'improper',
                                ','.join('%s%s' % k for k in sorted(want))))
    out.steps = log.seq
    out.digest = log.digest()
    out.info['knobs'] = {'bufsize': case['bufsize'], 'check_lx': case['check_lx']}
    return out


def shrink(case, still):
    best = dict(case)
    segs = best['segs']
    head, rest = segs[:1], segs[1:]

    def t(sub):
        return still(dict(best, segs=head + sub))
    rest = core.ddmin(rest, t, 300)
    best = dict(best, segs=head + rest)
    for k, v in (('noterm', False), ('plan', {'kind': 'exact'}), ('bufsize', 8192), ('eol', ''), ('seg_term', '~')):
        c = dict(best, **{k: v})
        if still(c):
            best = c
    return best


def sample_view(case, out):
    return {'faults': case['faults'], 'segments': [s[0] + '*' + '*'.join(s[1:]) for s in case['segs'][:14]],
            'n_segments': len(case['segs']), 'check_lx': case['check_lx']}
