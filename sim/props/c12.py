"""C12 — validation results do not depend on delimiters or line layout.

The "randomise every configuration knob per run" rule turned into a paired-run
check: the same segment list is encoded canonically (~ * : + LF) and with a
seeded other delimiter triple and line layout; both are validated under the
same frozen clock and PRNG (chunk plans drawn independently) and the verdict,
the error multiset and the acknowledgement body must be equal.
"""
import core
import seams
import docgen
import docsim
import faults as F
import workload as WL
from refmodel import ack_parser as AP
from refmodel import tokenise as T
from refmodel import values as V
from props import c05 as _c05
from props import c07 as _c07

ID = 'C12'
LEVEL = 'exploration'
RULE = ('Segment lists from the C05 workload (conformant or with 0..5 data faults, multi-envelope) plus 0..2 segment-level '
        'structural mutations (delete/duplicate/swap/move/retag/extra element/extra component/drop elements/unknown map), '
        'encoded twice: canonical (~ * : LF) and a seeded other legal triple (component separator inside the declared charset) '
        'with none/LF/CRLF/CR/mixed line breaks; one evaluation = one pair of validations. distinct_nontrivial = distinct '
        '(other triple class, layout, map file, sorted reported (level, code) multiset) keys.')
ASSUMPTIONS = [
    'data never contain a character used as delimiter in either encoding',
    'offending values are compared after translating each encoding\'s own delimiters to canonical tokens (an invalid-composite '
    'value necessarily contains the component separator itself)',
    'clock and PRNG are frozen to the same script in both runs, so the ack body can be compared exactly',
]
COMPONENTS = {
    'real': ['pyx12.x12n_document.x12n_document and everything below it, twice per evaluation'],
    'simulated': ['source device (independent chunk plans)', 'frozen clock and PRNG', 'delimiter / layout knobs'],
    'models': ['refmodel.ack_parser (body extraction)', 'own traversal of the error tree'],
}
MUT = ['empty_seg', 'seg_delete', 'seg_dup', 'seg_swap', 'seg_move', 'retag', 'extra_ele', 'extra_comp', 'drop_all_ele', 'lowercase_id',
       'gs_unknown_map', 'bht_tspc']


def tier_config(tier):
    if tier == 'thorough':
        return {'runs': 20000, 'wall': 820, 'det_probe': 4}
    return {'runs': 2000, 'wall': 150, 'det_probe': 3}


def generate(rng, tier, run, seed=0):
    case = _c05.gen_case(rng, run, tier, include_fa=True)
    if 'doc' not in case:
        return case
    flat = []
    for s in case['doc']:
        flat.append([s['id']] + [':'.join(v) if isinstance(v, list) else v for v in s['vals']])
    muts = []
    for _ in range(rng.choice([0, 0, 1, 1, 2])):
        k = rng.choice(MUT)
        if _c07.mutate(rng, flat, k):
            muts.append(k)
    data = set()
    for s in flat:
        for i, v in enumerate(s[1:]):
            if s[0] == 'ISA' and i == 15:
                continue
            data.update(v.replace(':', '') if s[0] != 'ISA' else v)
    allowed = V.charset(case['charset'], case['entry']['icvn'])
    other = None
    for _ in range(40):
        d = [rng.choice(['~', '\n', '!', '\x1d', '\x1c', '+', "'", '{', '}', '*', ':']),
             rng.choice(['*', '|', '\t', '\x1f', ',', '^', '{', '}', ':', '~', '\\']),
             rng.choice([':', ';', '?', '&', '>', '<', '\\', '@', '|', '!', '{', '}', '%', '*', '*', '~', '^'])]      # roles exchanged too
        if len(set(d)) == 3 and not (set(d) & data) and d[2] in allowed and d != ['~', '*', ':'] and not (set(d) & set('~*:') - set(d[:0])
                                                                                                  and False):
            other = d
            break
    if other is None or (set('~*:') & data):
        case['unsupported'] = 'data contain delimiter characters'
        return case
    layout = rng.choice(['none', 'lf', 'crlf', 'cr', 'mixed'])
    eols = []
    for _ in flat:
        if other[0] in '\r\n' or layout == 'none':
            eols.append('')
        else:
            eols.append({'lf': '\n', 'crlf': '\r\n', 'cr': '\r'}.get(layout) or rng.choice(['', '\n', '\r\n', '\r']))
    cfgs = [docsim.draw_config(rng, 'x' * 300, allow_path=False) for _ in range(2)]
    frozen_clock = [float(rng.randint(946684800, 2500000000))]
    frozen_rand = [rng.randint(0, 10 ** 9)]
    for c in cfgs:
        c['sinks'] = ['ack']
        c['clock'] = frozen_clock
        c['rand'] = frozen_rand
        c['reseed'] = 1
        c['map_path'] = None
    # what the process validated before is a configuration knob too: optionally prime it with the other charset
    prime = rng.choice([None, None, 'B' if case['charset'] == 'E' else 'E'])
    case.update({'flat': flat, 'muts': muts, 'other': other, 'layout': layout, 'eols': eols, 'cfgs': cfgs, 'prime': prime})
    del case['doc']
    return case


def encode(flat, d, eols):
    out = []
    for s, e in zip(flat, eols):
        els = [x.replace(':', d[2]) if s[0] != 'ISA' else x for x in s[1:]]
        if s[0] == 'ISA' and len(els) >= 16:
            els[15] = d[2]          # (also when a fault gave the ISA more elements: ISA16 is still the component separator)
        out.append((s[0] + d[1] + d[1].join(els) if els else s[0]) + d[0] + e)
    return ''.join(out)


def canon_value(v, d):
    if v is None:
        return None
    return v.replace(d[2], '\x00C').replace(d[1], '\x00E').replace(d[0], '\x00S')


def err_multiset(r, d):
    out = {}
    for e in r.errors:
        k = (e.level, e.code, e.isa, e.gs, e.st, e.seg_id, e.seg_count, e.ele_pos, e.subele_pos, canon_value(e.value, d))
        out[k] = out.get(k, 0) + 1
    return out


def ack_body(text, d):
    try:
        segs = AP.body_segments(text)
    except T.NotX12:
        return ['<unreadable>']
    out = []
    for s in segs:
        # a copied value that contains the source's component separator cannot be spelled the same in both
        # encodings; the ack replaces its own delimiters by blanks, so compare modulo that replacement
        out.append([s[0]] + [[x.replace(d[2], ' ').strip(' ') for x in comps] for comps in s[1:]])      # (a replaced delimiter at either end is dropped)
    return out


def execute(case):
    seams.import_pyx12()
    out = core.Outcome()
    log = core.EventLog()
    if 'unsupported' in case:
        out.probe('unsupported')
        out.digest = log.digest()
        return out
    flat = case['flat']
    d1 = ['~', '*', ':']
    d2 = case['other']
    t1 = encode(flat, d1, ['\n'] * len(flat))
    t2 = encode(flat, d2, case['eols'])
    if case.get('prime'):
        docsim.run(t1, dict(case['cfgs'][0], sinks=[]), case['prime'], None)
        out.fault('primed-with-other-charset')
    r1 = docsim.run(t1, case['cfgs'][0], case['charset'], log)
    r2 = docsim.run(t2, case['cfgs'][1], case['charset'], log)
    log.ev('pair', r1.verdict, r1.exc_sig, r2.verdict, r2.exc_sig, len(r1.errors), len(r2.errors))
    out.sim_time = r1.clock.span() + r2.clock.span()
    for m in case['muts']:
        out.fault(m)
    for f in case['faults']:
        out.fault(f['kind'])
    out.fault('layout:' + case['layout'])
    cls = '%s%s%s' % ('nl' if d2[0] == '\n' else ('ctl' if ord(d2[0]) < 32 else 'p'), 'ctl' if ord(d2[1]) < 32 else 'p', d2[2])
    if (r1.exc is None) != (r2.exc is None) or (r1.exc is not None and r1.exc_sig != r2.exc_sig):
        out.violate('outcome', 'outcome-differs|%s/%s' % (r1.exc_sig, r2.exc_sig),
                    'canonical encoding: %s, re-encoded (%r, %s): %s' % (r1.exc_sig or r1.verdict, d2, case['layout'], r2.exc_sig or r2.verdict))
    elif r1.exc is None:
        if r1.verdict != r2.verdict:
            out.violate('verdict', 'verdict-differs', 'verdict %r canonical vs %r re-encoded with %r/%s' % (r1.verdict, r2.verdict, d2, case['layout']))
        else:
            m1, m2 = err_multiset(r1, d1), err_multiset(r2, d2)
            if m1 != m2:
                only1 = sorted((k for k in m1 if m1[k] != m2.get(k, 0)), key=repr)[:3]
                only2 = sorted((k for k in m2 if m2[k] != m1.get(k, 0)), key=repr)[:3]
                kind = 'value' if set(k[:9] for k in m1) == set(k[:9] for k in m2) else 'errors'
                out.violate('errors', 'errors-differ|%s' % kind, 'error set differs between encodings (%r, %s): canonical only %r, re-encoded only %r' % (
                    d2, case['layout'], only1, only2))
            elif r1.ack is not None and r2.ack is not None:
                b1, b2 = ack_body(r1.ack, d1), ack_body(r2.ack, d2)
                if b1 != b2:
                    j = next((i for i in range(min(len(b1), len(b2))) if b1[i] != b2[i]), min(len(b1), len(b2)))
                    out.violate('ack', 'ack-body-differs', 'acknowledgement body differs at segment %d: %r vs %r' % (
                        j, b1[j] if j < len(b1) else None, b2[j] if j < len(b2) else None))
    out.cover.add('%s|%s|%s|%s' % (cls, case['layout'], case['entry']['file'],
                                   ','.join(sorted('%s%s' % (e.level, e.code) for e in r1.errors))[:100]))
    out.info['evals'] = 1
    out.info['knobs'] = {'layout': case['layout'], 'other': cls}
    out.steps = log.seq
    out.digest = log.digest()
    return out


def shrink(case, still):
    best = dict(case)
    flat = best['flat']
    head, rest = flat[:1], flat[1:]
    eol0, eolr = best['eols'][:1], best['eols'][1:]
    idx = list(range(len(rest)))

    def t(sub):
        return still(dict(best, flat=head + [rest[i] for i in sub], eols=eol0 + [eolr[i] for i in sub]))
    idx = core.ddmin(idx, t, 200)
    best = dict(best, flat=head + [rest[i] for i in idx], eols=eol0 + [eolr[i] for i in idx])
    c = dict(best, eols=[''] * len(best['flat']), layout='none')
    if still(c):
        best = c
    return best


def sample_view(case, out):
    if 'flat' not in case:
        return {'note': case.get('unsupported')}
    return {'map': case['entry']['file'], 'other_delims': case['other'], 'layout': case['layout'], 'mutations': case['muts'],
            'faults': case['faults'][:4], 'canonical_head': encode(case['flat'][:5], ['~', '*', ':'], ['\n'] * 5)}
