"""C17 — reference-designator and path addressing is consistent.

History part (the claim): seeded set/get/get_value histories on Segment objects
against a list-of-lists reference model, checked after every call.
Per-operation invariant: every path/designator is parsed, compared with the
grammar's fields, printed, re-parsed.
"""
import core
import seams
from props import c01 as _c01

ID = 'C17'
LEVEL = 'exploration'
RULE = ('Seeded histories of 1..60 set/get/get_value calls interleaved over 1..3 Segment objects (ISA and non-ISA, all delimiter settings) with '
        'designators NN, NN-N, SEGNN, SEGNN-N, foreign segment ids, indexes beyond the end, compared call by call with a '
        'list-of-lists model; plus, per run, 30 paths drawn from the documented path grammar (absolute/relative, 0..4 loop '
        'ids, segment id, qualifier, element 01..99, component 1..99, bare designators, and the two rejected shapes) checked '
        'for parse fields, printing and re-parse equality. One evaluation = one API call or one path. distinct_nontrivial = '
        'distinct (operation, designator shape, outcome class, padding needed) keys and path shapes.')
ASSUMPTIONS = [
    'values written never contain the segment\'s own delimiters (Segment.set would split them; not claimed)',
    'element index 00 / component index 0 and designators without an element index are outside the documented grammar for set',
    'loop ids are representative ids that cannot be mistaken for a segment designator (e.g. 2000A, HEADER, ISA_LOOP)',
]
COMPONENTS = {
    'real': ['pyx12.segment.Segment/Composite/Element', 'pyx12.path.X12Path'],
    'simulated': ['call history chosen by the seeded scheduler'],
    'models': ['list-of-lists segment model and path grammar printer (in props/c17.py)'],
}
LOOPS = ['ISA_LOOP', 'GS_LOOP', 'ST_LOOP', 'HEADER', 'DETAIL', 'FOOTER', '1000A', '1000B', '2000', '2000A', '2000B', '2010AA',
         '2300', '2400', '2100', '2110', 'TABLE1']
SEGIDS = ['NM1', 'REF', 'DTP', 'HL', 'N3', 'N4', 'CLM', 'SV1', 'ST', 'SE', 'ISA', 'GS', 'K3', 'CR1', 'HI', 'LX', 'PER', 'AMT']
QUALS = ['85', 'QC', 'IL', 'D9', '1C', 'G1', '434', 'ABK', 'X', '0B']
DATA = 'ABCDEFGHIJKLMNOPQRSTUVWXYZ0123456789 .-/()'


def tier_config(tier):
    if tier == 'thorough':
        return {'runs': 200000, 'wall': 780, 'det_probe': 8}
    return {'runs': 24000, 'wall': 150, 'det_probe': 4}


def gen_value(rng):
    n = rng.choice([0, 1, 1, 2, 3, 5, 9])
    return ''.join(rng.choice(DATA) for _ in range(n))


def gen_path(rng):
    """-> (text, fields or 'error')"""
    r = rng.random()
    absolute = rng.random() < 0.5
    nloops = rng.choice([0, 0, 1, 2, 3, 4])
    loops = [rng.choice(LOOPS) for _ in range(nloops)]
    seg = qual = ele = comp = None
    shape = rng.choice(['loops', 'seg', 'seg', 'segq', 'sege', 'segqe', 'segec', 'segqec', 'bare', 'barec', 'bad_q', 'bad_e', 'bad_q_only',
                        'bad_ec', 'bad_zero'])
    if shape == 'bad_zero':
        # element index 00 or component index 0 (the grammar counts from 01 and from 1): refused, not read as "the last one"
        seg = rng.choice(SEGIDS + [None])
        if seg is None:
            loops, absolute = [], False
        if rng.random() < 0.5:
            last = (seg or '') + '00' + ('-%d' % rng.randint(1, 3) if rng.random() < 0.3 else '')
        else:
            last = (seg or '') + '%02d-0' % rng.randint(1, 20)
        return ('/' if absolute else '') + '/'.join(list(loops) + [last]), 'error', shape
    if shape != 'loops':
        seg = rng.choice(SEGIDS)
    if shape in ('segq', 'segqe', 'segqec'):
        qual = rng.choice(QUALS)
    if shape in ('sege', 'segqe', 'segec', 'segqec', 'bare', 'barec', 'bad_e', 'bad_q', 'bad_ec'):
        ele = rng.randint(1, 99) if rng.random() < 0.3 else rng.randint(1, 20)
    if shape in ('segec', 'segqec', 'barec', 'bad_ec'):
        comp = rng.randint(1, 99) if rng.random() < 0.2 else rng.randint(1, 9)
    if shape in ('bare', 'barec'):
        seg = None
        loops = []
        absolute = False
    if shape == 'bad_q_only':
        # a bare qualifier after loop ids (or alone), no segment id, no element index
        seg = None
        qual = rng.choice(QUALS)
    if shape in ('bad_e', 'bad_ec'):
        seg = None
        if not loops:
            loops = [rng.choice(LOOPS)]
    if shape == 'bad_q':
        seg = None
        qual = rng.choice(QUALS)
    if shape == 'loops' and not loops:
        loops = [rng.choice(LOOPS)]
    last = ''
    if seg:
        last += seg
    if qual:
        last += '[%s]' % qual
    if ele:
        last += '%02d' % ele
    if comp:
        last += '-%d' % comp
    parts = list(loops) + ([last] if last else [])
    text = ('/' if absolute else '') + '/'.join(parts)
    if shape in ('bad_e', 'bad_q', 'bad_q_only', 'bad_ec'):
        return text, 'error', shape
    return text, {'relative': not absolute, 'loops': loops, 'seg': seg, 'qual': qual, 'ele': ele, 'comp': comp}, shape


def map_paths(rng, n):
    """the printed path of nodes of the shipped maps (read through the independent loader): loops, segments (with the
    qualifier that tells same-position siblings apart), elements and components"""
    import mapspec
    out = []
    ents = mapspec.selectable()
    m = mapspec.load_map(rng.choice(ents)['file'])
    nodes = [x for x in mapspec.walk(m) if x.kind in ('loop', 'segment')]
    for _ in range(n):
        nd = rng.choice(nodes)
        loops = nd.path().strip('/').split('/')
        seg = qual = ele = comp = None
        if nd.kind == 'segment':
            seg = loops.pop()
            ql = mapspec.qualifiers(nd)
            if ql and rng.random() < 0.5:
                c = ql[0][1][0]
                if c and c.isalnum() and c.upper() == c:
                    qual = c
            if nd.children and rng.random() < 0.7:
                k = rng.randrange(len(nd.children))
                ele = k + 1
                ch = nd.children[k]
                if ch.kind == 'composite' and ch.children and rng.random() < 0.7:
                    comp = rng.randint(1, len(ch.children))
        rx = __import__('re')
        if seg is not None and not rx.match(r'^[A-Z][A-Z0-9]{1,2}$', seg):
            continue
        if seg is None and rx.match(r'^[A-Z][A-Z0-9]{1,2}$', loops[-1]):
            continue        # a final loop id that looks like a segment id is read as one (documented ambiguity: 997 loops AK2/AK3)
        last = (seg or '') + ('[%s]' % qual if qual else '') + ('%02d' % ele if ele else '') + ('-%d' % comp if comp else '')
        text = '/' + '/'.join(loops + ([last] if last else []))
        out.append([text, {'relative': False, 'loops': loops, 'seg': seg, 'qual': qual, 'ele': ele, 'comp': comp}, 'map:' + nd.kind])
    return out


def gen_segment(rng, ele_term, sub_term, used):
    is_isa = rng.random() < 0.15 and 'ISA' not in used
    if is_isa:
        sid = 'ISA'
        els = ['00', ' ' * 10, '00', ' ' * 10, 'ZZ', 'S'.ljust(15), 'ZZ', 'R'.ljust(15), '040102', '1230', 'U', '00401',
               '000000001', '0', 'P', sub_term]
    else:
        sid = rng.choice([x for x in SEGIDS[:10] if x not in used] or SEGIDS[:10])
        els = []
        for _ in range(rng.choice([0, 1, 2, 4, 7])):
            if rng.random() < 0.25:
                els.append(sub_term.join(gen_value(rng) for _ in range(rng.choice([2, 3]))))
            else:
                els.append(gen_value(rng))
    return sid, sid + ''.join(ele_term + e for e in els)


def generate(rng, tier, run, seed=0):
    seg_term, ele_term, sub_term = rng.choice([('~', '*', ':'), ('~', '*', ':'), ('\n', '|', '>'), ('!', '^', '\\'), ('+', ',', '<')])
    nseg = rng.choice([1, 1, 2, 3])
    sids, inits = [], []
    for _ in range(nseg):
        sid, init = gen_segment(rng, ele_term, sub_term, sids)
        sids.append(sid)
        inits.append(init)
    ops = []
    for _ in range(rng.choice([1, 3, 8, 20, 40, 60])):
        k = rng.randrange(nseg)          # the scheduler: which segment object is operated on next
        sid = sids[k]
        op = rng.choice(['set', 'set', 'get_value', 'get_value', 'get'])
        ele = rng.choice([1, 1, 2, 3, 4, 5, 8, 12, 17, 25] + ([11, 16, 16] if sid == 'ISA' else []))      # ISA11 / ISA16 hold delimiters
        comp = rng.choice([None, None, None, None, 1, 2, 3, 6, 10, 12, 15])
        if sid == 'ISA' and rng.random() < 0.6:
            comp = None
        r = rng.random()
        others = [x for x in sids if x != sid]
        if r < 0.45:
            prefix = ''
        elif r < 0.8:
            prefix = sid
        else:
            # a designator naming another segment - preferably one that *is* legitimately used on another object of this history
            prefix = rng.choice(others) if others and rng.random() < 0.7 else rng.choice([x for x in SEGIDS if x != sid])
        refdes = '%s%02d' % (prefix, ele) + ('-%d' % comp if comp else '')
        ops.append([k, op, refdes, gen_value(rng) if op == 'set' else None])
    paths = [list(gen_path(rng)) for _ in range(30)]
    paths += map_paths(rng, 12 if tier == 'quick' else 40)
    case = {'segs': inits, 'delims': [seg_term, ele_term, sub_term], 'ops': ops, 'paths': paths}
    if run % (1500 if tier == 'quick' else 400) == 11:
        # the path every node of a shipped map prints for itself (through pyx12's own loader)
        import mapspec
        ents = [e for e in mapspec.selectable() if not e['file'].startswith('841')]
        case['pyx12_map'] = ents[(run // 400) % len(ents)]['file']
    return case


# ------------------------------------------------------------------ model

class SegModel(object):
    def __init__(self, text, ele_term, sub_term):
        parts = text.split(ele_term)
        self.id = parts[0]
        self.sub = sub_term
        self.ele_term = ele_term
        if self.id == 'ISA':
            self.els = [[p] for p in parts[1:]]
            self.join = [ele_term] * len(self.els)     # ISA elements are never split; their own "component" joiner is the element separator
        else:
            self.els = [p.split(sub_term) for p in parts[1:]]
            self.join = [sub_term] * len(self.els)

    @staticmethod
    def parse(refdes):
        """documented grammar: [SEG]NN[-N]"""
        import re
        m = re.match(r'^([A-Z][A-Z0-9]{1,2})?([0-9]{2})(?:-([0-9]+))?$', refdes)
        return m.group(1), int(m.group(2)), (int(m.group(3)) if m.group(3) else None)

    def get_value(self, refdes):
        sid, e, c = self.parse(refdes)
        if sid is not None and sid != self.id:
            return 'REFUSED'
        if e > len(self.els):
            return None
        comps = self.els[e - 1]
        if c is None:
            t = list(comps)
            while len(t) > 1 and t[-1] == '':
                t.pop()
            return self.join[e - 1].join(t)
        if c > len(comps):
            return None
        return comps[c - 1]

    def set(self, refdes, val):
        sid, e, c = self.parse(refdes)
        if sid is not None and sid != self.id:
            return 'REFUSED'
        pad = 0
        while len(self.els) < e:
            self.els.append([''])
            self.join.append(self.sub)
            pad += 1
        if self.id == 'ISA' and e in (11, 16) and c is None:
            self.els[e - 1] = [val]          # ISA11 and ISA16 hold delimiters: an element-level write is never split
            self.join[e - 1] = self.ele_term
        elif c is None:
            self.els[e - 1] = [val]
            self.join[e - 1] = self.sub
        else:
            while len(self.els[e - 1]) < c:
                self.els[e - 1].append('')
                pad += 1
            self.els[e - 1][c - 1] = val
        return pad


def seg_state(seg):
    return [[e.get_value() for e in comp.elements] for comp in seg.elements]


def execute(case):
    seams.import_pyx12()
    import pyx12.segment
    import pyx12.path
    from pyx12.errors import EngineError, X12PathError
    out = core.Outcome()
    log = core.EventLog()
    seg_term, ele_term, sub_term = case['delims']
    evals = 0
    try:
        inits = case.get('segs') or [case['init']]
        segs = [pyx12.segment.Segment(t + seg_term, seg_term, ele_term, sub_term) for t in inits]
        models = [SegModel(t, ele_term, sub_term) for t in inits]
        for seg, model, t in zip(segs, models, inits):
            if seg_state(seg) != model.els or seg.get_seg_id() != model.id:
                out.violate('init', 'init-mismatch', 'Segment(%r) parsed as %r, model %r' % (t, seg_state(seg), model.els))
        for n, rec in enumerate(case['ops']):
            if len(rec) == 4:
                k, op, refdes, val = rec
            else:
                k, (op, refdes, val) = 0, rec
            seg, model = segs[k], models[k]
            evals += 1
            log.ev('op', op, refdes)
            before = [list(c) for c in model.els]
            shape = ('ISA:' if model.id == 'ISA' else '') + ('SEG' if refdes[:1].isalpha() else '') + 'NN' + ('-N' if '-' in refdes else '')
            if op == 'set':
                want = model.set(refdes, val)
                try:
                    seg.set(refdes, val)
                    got = 'ok'
                except EngineError:
                    got = 'REFUSED'
                if (want == 'REFUSED') != (got == 'REFUSED'):
                    out.violate('set', 'set-refusal|%s' % shape, 'op %d set(%r): %s, model says %s' % (n, refdes, got, want))
                    break
                for j2, (s2, m2) in enumerate(zip(segs, models)):
                    if j2 != k and seg_state(s2) != m2.els:
                        out.violate('set', 'set-leaks-to-other-segment', 'op %d set(%r) on segment %d changed segment %d' % (n, refdes, k, j2))
                if seg_state(seg) != model.els:
                    out.violate('set', 'set-state|%s' % shape, 'op %d set(%r,%r): state %r, model %r (before %r)' % (
                        n, refdes, val, seg_state(seg), model.els, before))
                    break
                if want != 'REFUSED':
                    back = seg.get_value(refdes)
                    if back != val:
                        out.violate('set', 'set-then-get|%s' % shape, 'op %d set(%r,%r) then get_value -> %r' % (n, refdes, val, back))
                        break
                    out.cover.add('set|%s|pad=%s' % (shape, min(want, 3)))
                else:
                    out.cover.add('set|%s|refused' % shape)
            else:
                want = model.get_value(refdes)
                try:
                    if op == 'get_value':
                        got = seg.get_value(refdes)
                    else:
                        g = seg.get(refdes)
                        got = None if g is None else g.format()
                except EngineError:
                    got = 'REFUSED'
                if got != want:
                    out.violate('get', 'get|%s' % shape, 'op %d %s(%r) -> %r, model %r (state %r)' % (n, op, refdes, got, want, model.els))
                    break
                if seg_state(seg) != model.els:
                    out.violate('get', 'get-mutated', 'op %d %s(%r) changed the segment' % (n, op, refdes))
                    break
                out.cover.add('%s|%s|%s' % (op, shape, 'refused' if want == 'REFUSED' else ('none' if want is None else 'value')))
    except Exception as e:
        out.violate('exception', 'exception|' + _c01.exc_sig(e), 'segment history: %s: %s' % (_c01.exc_sig(e), e))
    # path laws
    for text, fields, shape in case['paths']:
        evals += 1
        try:
            try:
                p = pyx12.path.X12Path(text)
                got_err = False
            except X12PathError:
                got_err = True
            if fields == 'error':
                if not got_err:
                    out.violate('path', 'path-not-rejected|%s' % shape, 'path %r should be rejected with X12PathError' % text)
                out.cover.add('path|%s' % shape)
                continue
            if got_err:
                out.violate('path', 'path-rejected|%s' % shape, 'well-formed path %r rejected' % text)
                continue
            got = {'relative': p.relative, 'loops': list(p.loop_list), 'seg': p.seg_id, 'qual': p.id_val, 'ele': p.ele_idx,
                   'comp': p.subele_idx}
            if got != fields:
                out.violate('path', 'path-fields|%s' % shape, 'path %r parsed as %r, grammar says %r' % (text, got, fields))
                continue
            printed = p.format()
            if printed != text:
                out.violate('path', 'path-print|%s' % shape, 'path %r prints as %r' % (text, printed))
                continue
            q = pyx12.path.X12Path(printed)
            if not (q == p) or (q != p):
                out.violate('path', 'path-reparse|%s' % shape, 'path %r re-parsed is not equal' % text)
                continue
            out.cover.add('path|%s|%s|%d' % (shape, 'abs' if not fields['relative'] else 'rel', len(fields['loops'])))
        except Exception as e:
            out.violate('exception', 'path-exception|' + _c01.exc_sig(e), 'path %r: %s' % (text, e))
    if case.get('pyx12_map'):
        evals += check_map_node_paths(case['pyx12_map'], out)
    out.info['evals'] = evals
    out.steps = log.seq
    out.digest = log.digest()
    return out


def check_map_node_paths(fname, out):
    """every node of the map, loaded by pyx12 itself: the path it prints for itself parses to its own parts and prints back unchanged"""
    import re
    import pyx12.map_if
    import pyx12.params
    import pyx12.path
    from pyx12.errors import X12PathError
    m = pyx12.map_if.load_map_file(fname, pyx12.params.params())
    seen = set()
    n = 0

    def visit(node, loops, seg, ele_seq):
        nonlocal n
        kind = 'loop' if node.is_loop() else ('segment' if node.is_segment() else ('composite' if node.is_composite() else
                                                                                     ('subelement' if ele_seq is not None else 'element')))
        text = node.get_path()
        n += 1
        want = None
        if kind == 'loop':
            want = (loops + [node.id], None, None, None)
        elif kind == 'segment':
            want = (loops, node.id, None, None)
        elif kind in ('element', 'composite'):
            want = (loops, seg, node.seq, None)
        else:
            want = (loops, seg, ele_seq, node.seq)
        ambiguous = kind == 'loop' and re.match(r'^[A-Z][A-Z0-9]{1,2}$', node.id or '')
        if not ambiguous:
            try:
                p = pyx12.path.X12Path(text)
                got = (list(p.loop_list), p.seg_id, p.ele_idx, p.subele_idx)
                if got != want and ('fields', kind) not in seen:
                    seen.add(('fields', kind))
                    out.violate('path', 'map-node-path-fields|%s' % kind, '%s: the %s node prints its path as %r, which parses as %r; the node is %r' % (
                        fname, kind, text, got, want))
                elif p.format() != text and ('print', kind) not in seen:
                    seen.add(('print', kind))
                    out.violate('path', 'map-node-path-print|%s' % kind, '%s: the %s node prints its path as %r, X12Path prints it back as %r' % (
                        fname, kind, text, p.format()))
            except X12PathError as e:
                if ('rejected', kind) not in seen:
                    seen.add(('rejected', kind))
                    out.violate('path', 'map-node-path-rejected|%s' % kind, '%s: the path %r of a %s node is rejected: %s' % (fname, text, kind, e))
        out.cover.add('map-node|%s' % kind)
        if kind == 'loop':
            for ch in node.childIterator():
                visit(ch, loops + [node.id], None, None)
        elif kind == 'segment':
            for ch in node.children:
                visit(ch, loops, node.id, None)
        elif kind == 'composite':
            for ch in node.children:
                visit(ch, loops, seg, node.seq)
    for ordinal in sorted(m.pos_map):
        for ch in m.pos_map[ordinal]:
            visit(ch, [], None, None)
    return n


def shrink(case, still):
    best = dict(case)
    c = dict(best, paths=[])
    if still(c):
        best = c
        ops = core.ddmin(best['ops'], lambda sub: still(dict(best, ops=sub)), 200)
        best = dict(best, ops=ops)
    else:
        c = dict(best, ops=[])
        if still(c):
            best = c
        paths = core.ddmin(best['paths'], lambda sub: still(dict(best, paths=sub)), 100)
        best = dict(best, paths=paths)
    return best


def sample_view(case, out):
    return {'segments': case.get('segs'), 'delims': case['delims'], 'ops': case['ops'][:10], 'paths': [p[0] for p in case['paths'][:10]]}
