"""C18 — results are a function of the document and parameters alone.

History simulation: one fresh interpreter executes a seeded history of 3..12
operations (validations with different sinks, context iterations, plain reads,
XML round trips, x12norm calls, the same document several times) with shared or
fresh params objects, optional map memoisation, interleaved live generators, a
validation executed re-entrantly from the callback of another, a clock that
jumps between and inside operations, a PRNG in a different state before each.
Every operation's observable result is compared with the same operation executed
alone in a forked child of another fresh interpreter started with a different
PYTHONHASHSEED.
"""
import json
import os
import subprocess
import sys
import time as _time

import core
import seams
import docgen
import docsim
import mapspec
import workload as WL
from props import c05 as _c05
from props import c07 as _c07
from props import c09 as _c09

ID = 'C18'
LEVEL = 'exploration'
RULE = ('Histories of 3..12 operations over a pool of 2..4 documents of mixed maps/versions (conformant, data-faulty, structurally '
        'mutated): validate (any sink subset, charset), context iteration (any loop id), plain read, XML round trip, x12norm; '
        'knobs per history: shared params object, memoised load_map_file, interleaved generators (seeded order), re-entrant '
        'validation from a callback, clock script with jumps (second/minute/midnight/year/backwards), PRNG script, two different '
        'PYTHONHASHSEEDs for the history and the reference interpreter. One evaluation = one operation compared. '
        'distinct_nontrivial = distinct (operation kind, preceding operation kind, knob vector, document class) keys.')
ASSUMPTIONS = [
    'legitimate differences are masked: ack ISA09/10/13, GS04/05/06, GE02, IEA02 and the HTML "Analysis Date" line',
    'the masked fields must be derived from values the clock / PRNG seams actually handed out',
    'threads are not simulated: the property speaks of sequences in one process and pyx12 makes no thread-safety claim',
    'the reference runs a re-entrant pair as two separate operations (outer without callback, inner alone)',
]
COMPONENTS = {
    'real': ['every pyx12 entry point used by the operations (x12n_document, X12ContextReader, X12Reader, xmlx12_simple, scripts.x12norm)',
             'two real CPython interpreters per history, os.fork per reference operation'],
    'simulated': ['operation history and interleaving', 'clock', 'PRNG', 'PYTHONHASHSEED', 'map-object reuse knob', 'source devices / sinks'],
    'models': ['the same operation in a pristine process is the reference'],
}
HISTOPS = os.path.join(os.path.dirname(os.path.dirname(os.path.abspath(__file__))), 'histops.py')


def tier_config(tier):
    if tier == 'thorough':
        return {'runs': 6000, 'wall': 820, 'det_probe': 2}
    return {'runs': 360, 'wall': 110, 'det_probe': 2}


def gen_doc(rng, run, k):
    ents = [e for e in docsim.entries() if e['file'] not in docsim.EXCLUDED_MAPS]
    entry = ents[(run * 3 + k * 5) % len(ents)]
    r = rng.random()
    if r < 0.75:
        # a third of the documents stress the date/time format qualifiers (state that is selected by earlier elements)
        kinds = ['bad_date', 'bad_time'] if r < 0.2 else (['bad_code'] if r < 0.4 else None)
        case = _c05.gen_case(rng, run * 3 + k * 5, 'quick', include_fa=True, kinds=kinds)
        if 'doc' in case:
            if case['entry']['icvn'] == '00501' and rng.random() < 0.2:
                # a 5010 set header without ST03 (what an acknowledgement copies from one set must not reach the next document's)
                sts = [s_ for s_ in case['doc'] if s_['id'] == 'ST' and len(s_['vals']) >= 3]
                if sts:
                    s_ = rng.choice(sts)
                    s_['vals'] = s_['vals'][:2]
            return _c05.case_text(case), entry['file'], 'faulty' if case['faults'] else 'clean'
    c7 = _c07.generate(rng, 'quick', run * 3 + k * 5)
    t = c7['text'] if c7['eof'] is None else c7['text'][:c7['eof']]
    return t, c7['map'], 'structural'


def clock_script(rng):
    t0 = rng.choice([946684799.0, 1096588799.0, 1709251199.0, 2524607999.0, float(rng.randint(946684800, 2500000000))])
    s = [t0]
    for _ in range(30):
        s.append(s[-1] + rng.choice([0, 0, 0, 1, 1, 59, 60, 3600, 86400, -1, -86400, 31536000, -31536000]))
    return s


def gen_single(rng, ndocs, kinds=('validate', 'validate', 'validate', 'context', 'reader', 'xmlrt', 'norm')):
    k = rng.choice(kinds)
    d = rng.randrange(ndocs)
    if k == 'validate':
        return {'k': 'validate', 'doc': d, 'sinks': [s for s in ('ack', 'html', 'xml') if rng.random() < 0.6] or ['ack'],
                'charset': rng.choice(['E', 'E', 'B']), 'bufsize': rng.choice([8192, 8192, 64]),
                'exclude': rng.choice([None, None, None, 'states', 'states,country,currency', 'entity_id,remark_code,pos']),
                # parameter object built from a configuration file (its options must not reach later parameter objects)
                'conf': rng.choice([None] * 7 + [{'simple_dtd': 'http://x12.example/x12simple.dtd'}])}
    if k == 'context':
        return {'k': 'context', 'doc': d, 'loop_id': rng.choice([None, 'ST_LOOP', 'ISA_LOOP', '2000A', '2300', '2000', '2100', 'NOPE']),
                'copy_trees': rng.random() < 0.4}
    if k == 'reader':
        return {'k': 'reader', 'doc': d}
    if k == 'xmlrt':
        return {'k': 'xmlrt', 'doc': d}
    return {'k': 'norm', 'doc': d, 'opts': rng.choice([[], ['-e'], ['-f'], ['-e', '-f']])}


def generate(rng, tier, run, seed=0):
    ndocs = rng.choice([2, 3, 4])
    docs, classes = [], []
    for k in range(ndocs):
        try:
            t, mp, cl = gen_doc(rng, run, k)
        except docgen.Unsupported:
            continue
        if not t.isascii():
            continue
        docs.append(t)
        classes.append('%s:%s' % (mp.split('.')[0], cl))
    if not docs:
        return {'unsupported': True}
    ops = []
    for _ in range(rng.choice([3, 4, 6, 8, 12])):
        r = rng.random()
        if r < 0.12:
            members = [gen_single(rng, len(docs), ('context', 'reader')) for _ in range(rng.choice([2, 3]))]
            ops.append({'k': 'interleave', 'members': members, 'order': [rng.randrange(len(members)) for _ in range(40)]})
        elif r < 0.24:
            outer = gen_single(rng, len(docs), ('validate',))
            inner = gen_single(rng, len(docs), ('validate', 'validate', 'context', 'xmlrt'))
            outer['reenter'] = {'at': rng.randint(1, 12), 'op': inner}
            ops.append(outer)
        elif r < 0.34 and ops:
            ops.append(dict(rng.choice([o for o in ops if o['k'] != 'interleave'] or [gen_single(rng, len(docs))])))   # the same operation again
        else:
            ops.append(gen_single(rng, len(docs)))
    return {'docs': docs, 'classes': classes, 'ops': ops, 'memo': rng.random() < 0.4, 'shared_param': rng.random() < 0.5,
            'clock': clock_script(rng), 'rand': [rng.randint(0, 10 ** 9) for _ in range(5)],
            'hashseed_history': rng.randint(1, 2 ** 30), 'hashseed_reference': rng.randint(1, 2 ** 30)}


def spawn(mode, spec, hashseed):
    env = dict(os.environ, PYTHONHASHSEED=str(hashseed))
    env.pop('PYTHONPATH', None)
    # a history takes a second or two; a child that does not answer within 75 s is killed with its whole process group
    # (the pristine mode forks per operation) and started once more - a stall of the sandbox is not a property of pyx12;
    # a second stall is reported as a harness error (exit 2), never as a verdict
    import signal

    class _P(object):
        pass
    p = _P()
    for attempt in (0, 1):
        proc = subprocess.Popen([sys.executable, HISTOPS, mode], stdin=subprocess.PIPE, stdout=subprocess.PIPE, stderr=subprocess.PIPE,
                                env=env, start_new_session=True)
        try:
            p.stdout, p.stderr = proc.communicate(input=json.dumps(spec).encode(), timeout=75)
            p.returncode = proc.returncode
            break
        except subprocess.TimeoutExpired:
            try:
                os.killpg(proc.pid, signal.SIGKILL)
            except OSError:
                pass
            proc.wait()
            for f in (proc.stdin, proc.stdout, proc.stderr):
                try:
                    f.close()
                except Exception:
                    pass
            if attempt:
                raise RuntimeError('%s process did not finish within 75 s, twice' % mode)
    if p.returncode != 0:
        raise RuntimeError('%s process failed: %s' % (mode, p.stderr.decode(errors='replace')[-1500:]))
    return json.loads(p.stdout.decode())


def derived_ok(res):
    """are the masked ack fields derived from clock / PRNG values actually handed out?"""
    free = res.get('ack_free') or {}
    if not free:
        return None
    handed = res.get('clock') or []
    import time
    days, mins, secs, ctl, full = set(), set(), set(), set(), set()
    for t in handed:
        g = time.gmtime(t)
        days.add(time.strftime('%y%m%d', g))
        full.add(time.strftime('%Y%m%d', g))
        mins.add(time.strftime('%H%M', g))
        secs.add(time.strftime('%H%M%S', g))
    for a in days:
        for b in mins:
            ctl.add((a + b)[1:])
    for v in free.get('ISA09', []):
        if v not in days:
            return 'ISA09=%r is not a date the clock handed out' % v
    for v in free.get('ISA10', []):
        if v not in mins:
            return 'ISA10=%r is not a time the clock handed out' % v
    for v in free.get('ISA13', []) + free.get('IEA02', []):
        if v not in ctl:
            return 'interchange control number %r is not derived from the clock' % v
    for v in free.get('GS04', []):
        if v not in full:
            return 'GS04=%r is not a date the clock handed out' % v
    for v in free.get('GS05', []):
        if v not in secs:
            return 'GS05=%r is not a time the clock handed out' % v
    return None


def canon(res):
    if not isinstance(res, dict):
        return res
    return {k: v for k, v in res.items() if k not in ('ack_free', 'clock', 'rand')}


def kind_of(op):
    return op['k'] + ('+' + '+'.join(op.get('sinks', [])) if op['k'] == 'validate' else '')


def execute(case):
    out = core.Outcome()
    log = core.EventLog()
    if case.get('unsupported'):
        out.probe('unsupported')
        out.digest = log.digest()
        return out
    import histops
    spec = {k: case[k] for k in ('docs', 'ops', 'memo', 'shared_param', 'clock', 'rand')}
    hist = spawn('history', spec, case['hashseed_history'])
    ref = spawn('pristine', spec, case['hashseed_reference'])
    flat = histops.flat_ops(case['ops'])
    out.info['evals'] = len(flat)
    if len(hist) != len(flat) or len(ref) != len(flat):
        raise RuntimeError('result count mismatch: %d ops, %d history results, %d reference results' % (len(flat), len(hist), len(ref)))
    prev = 'start'
    for i, (op, a, b) in enumerate(zip(flat, hist, ref)):
        if isinstance(b, dict) and 'harness_exc' in b:
            raise RuntimeError('reference op %d failed in the harness: %s' % (i, b['harness_exc']))
        ca, cb = canon(a), canon(b)
        log.ev('op', i, kind_of(op), core.digest(ca))
        if ca != cb:
            keys = sorted(k for k in set(list(ca or {}) + list(cb or {})) if (ca or {}).get(k) != (cb or {}).get(k)) if isinstance(ca, dict) and isinstance(cb, dict) else ['result']
            detail = ''
            k0 = keys[0]
            va, vb = (ca or {}).get(k0), (cb or {}).get(k0)
            if isinstance(va, list) and isinstance(vb, list):
                j = next((n for n in range(min(len(va), len(vb))) if va[n] != vb[n]), min(len(va), len(vb)))
                detail = 'first difference at index %d: %r vs %r' % (j, va[j] if j < len(va) else None, vb[j] if j < len(vb) else None)
            elif isinstance(va, str) and isinstance(vb, str):
                j = next((n for n in range(min(len(va), len(vb))) if va[n] != vb[n]), min(len(va), len(vb)))
                detail = 'first difference at offset %d: %r vs %r' % (j, va[max(0, j - 30):j + 30], vb[max(0, j - 30):j + 30])
            else:
                detail = '%r vs %r' % (va, vb)
            out.violate('history', 'history-dependent|%s|%s' % (op['k'], '+'.join(keys)),
                        'operation %d (%s, after %s; memo=%s shared_param=%s) differs from the same operation in a pristine process in %s: %s' % (
                            i, kind_of(op), prev, case['memo'], case['shared_param'], keys, detail))
            break
        if op['k'] == 'validate':
            why = derived_ok(a)
            if why:
                out.violate('leak', 'ack-field-not-from-seam', 'operation %d: %s' % (i, why))
                break
        cls = case['classes'][op['doc']] if op.get('doc', 0) < len(case['classes']) else '?'
        out.cover.add('%s|after:%s|memo=%s|shared=%s|%s' % (kind_of(op), prev, case['memo'], case['shared_param'], cls.split(':')[1]))
        prev = op['k']
    for op in case['ops']:
        if op['k'] == 'interleave':
            out.fault('interleave')
        if op.get('reenter'):
            out.fault('reentrant')
    out.fault('memo' if case['memo'] else 'no-memo')
    out.fault('shared-param' if case['shared_param'] else 'fresh-param')
    clk = case['clock']
    out.sim_time = max(clk) - min(clk)
    jumps = [b - a for a, b in zip(clk, clk[1:])]
    out.fault('clock-backwards', sum(1 for j in jumps if j < 0))
    out.fault('clock-jump>=1day', sum(1 for j in jumps if abs(j) >= 86400))
    out.steps = log.seq
    out.digest = log.digest()
    return out


def shrink(case, still):
    best = dict(case)
    ops = core.ddmin(best['ops'], lambda sub: still(dict(best, ops=sub)), 40)
    best = dict(best, ops=ops)
    for k, v in (('memo', False), ('shared_param', False)):
        c = dict(best, **{k: v})
        if still(c):
            best = c
    return best


def sample_view(case, out):
    if case.get('unsupported'):
        return {'note': 'unsupported'}
    return {'documents': case['classes'], 'ops': [{k: v for k, v in o.items() if k not in ('order',)} for o in case['ops'][:6]],
            'memo': case['memo'], 'shared_param': case['shared_param'], 'clock_head': case['clock'][:6],
            'hashseeds': [case['hashseed_history'], case['hashseed_reference']]}
