"""C03 — every single injected fault is rejected and localised.

The fault arm: a conformant document (its fault-free validation is computed
first) is hit by exactly one data fault per validation, enumerated over every
(segment position, element/component position, kind) the applicability
predicate admits, up to a per-document cap.  The expected code and location
come from the reference rules (refmodel.element_rules), not from pyx12.
"""
import core
import seams
import mapspec
import docgen
import docsim
import faults as F
from refmodel import element_rules as R
from refmodel import ack_parser as AP
from refmodel import tokenise as T

ID = 'C03'
LEVEL = 'fault_enumeration'
RULE = ('For each base document (independently generated, conformant, fault-free validation clean) the fault catalogue is '
        'enumerated over every applicable (segment, element/component, kind): too_long, too_short, bad_code, bad_class, '
        'bad_date, bad_time, missing_required_ele, not_used_ele, too_many_ele, too_many_comp, syntax_note, '
        'missing_required_comp, comp_in_simple, missing_required_seg, missing_required_loop, unknown_seg (inside a set and between the '
        'envelope segments), misplaced_seg, seg_over_max, loop_over_max; up to a per-document cap (a seeded '
        'sample when the enumeration is larger). One evaluation = one validation of a singly-faulted document. '
        'distinct_nontrivial = distinct (map file, node path, element position, fault kind) keys.')
ASSUMPTIONS = [
    'expected codes/positions come from refmodel.element_rules (DESIGN A.4/A.5) applied to the mutated segment',
    'not-used elements: an error at the position is required, its code is not pinned',
    'syntax-note and too-many-elements errors: position must be one the note mentions / the first excess position',
    'faults touching a matching qualifier (element 01 code lists, HL03, ENT02, first component of a leading composite) only '
    'require verdict False and some error at or after the position; envelope segments, HL01/HL02, LX01 and BHT02 are not mutated',
    'base documents that are not accepted fault-free are skipped (counted), e.g. the recorded 999 CTX finding',
]
COMPONENTS = {
    'real': ['pyx12.x12n_document.x12n_document and everything below it'],
    'simulated': ['source device (chunk plan per fault)', 'sinks', 'clock', 'PRNG', 'the stored document with one corrupted field'],
    'models': ['mapspec + docgen (base documents)', 'faults (catalogue)', 'refmodel.element_rules', 'refmodel.ack_parser'],
}


def tier_config(tier):
    if tier == 'thorough':
        return {'runs': 4000, 'wall': 820, 'det_probe': 2}
    return {'runs': 200, 'wall': 150, 'det_probe': 2}


def generate(rng, tier, run, seed=0):
    ents = [e for e in docsim.entries() if e['file'] not in docsim.EXCLUDED_MAPS]
    entry = ents[run % len(ents)]
    charset = rng.choice(['E', 'E', 'B'])
    case = {'entry': entry, 'charset': charset}
    cap_seg = rng.choice([25, 50, 90]) if tier == 'quick' else rng.choice([30, 80, 200])
    try:
        g = docsim.draw_doc(rng, entry, size_cap=cap_seg, charset=charset,
                            multi=(1, 1, 1) if rng.random() < 0.7 else (1, 1, 2))
    except docgen.Unsupported as e:
        case['unsupported'] = str(e)
        return case
    m = mapspec.load_map(entry['file'])
    doc = F.annotate(m, F.from_gen(g.segs))
    fl = F.enumerate_faults(m, doc, rng, charset, entry['icvn'])
    cap = 28 if tier == 'quick' else 120
    total = len(fl)
    if len(fl) > cap:
        # keep every kind represented, then a seeded sample
        by_kind = {}
        for f in fl:
            # (syntax notes: one stratum per note type, so that every kind of note is exercised)
            by_kind.setdefault(f['kind'] + (':' + f['note'][0] if f.get('note') else ''), []).append(f)
        pick = []
        for k in sorted(by_kind):
            rare = [f for f in by_kind[k] if f.get('ctx') in ('parent-repeats', 'opener-then-repeat', 'non-adjacent', 'gap', 'trailing-cut')]
            pick.append(rng.choice(rare if rare and rng.random() < 0.7 else by_kind[k]))
        rest = [f for f in fl if f not in pick]
        rng.shuffle(rest)
        fl = pick + rest[:max(0, cap - len(pick))]
    plans = [docsim.draw_config(rng, 'x' * 200, allow_path=False) for _ in range(3)]
    case.update({'doc': doc, 'faults': fl, 'enumerated': total, 'cfgs': plans, 'shape': list(g.shape)})
    return case


def set_coords(doc, idx):
    """(set ordinal 1-based over the file, position in set) of doc[idx]"""
    sets = 0
    pos = 0
    for k, s in enumerate(doc):
        if s['id'] == 'ST':
            sets += 1
            pos = 1
        elif s['id'] not in ('ISA', 'GS', 'GE', 'IEA', 'SE'):
            pos += 1
        elif s['id'] == 'SE':
            pos += 1
        if k == idx:
            return sets, pos
    return sets, pos


def st_index_of(r, set_ordinal):
    """map a file-wide set ordinal to (isa, gs, st) indices of the error tree structure"""
    n = 0
    for ii, isa in enumerate(r.struct):
        for gi, gs in enumerate(isa['gs']):
            for si, st in enumerate(gs['st']):
                n += 1
                if n == set_ordinal:
                    return ii, gi, si
    return None


def check_fault(case, f, m, out, log, idx):
    entry = case['entry']
    doc = case['doc']
    mutated, where = F.apply_fault(doc, f)
    text = F.to_text(mutated)
    cfg = case['cfgs'][idx % len(case['cfgs'])]
    cfg = dict(cfg, sinks=['ack'] if idx % 3 else ['ack', 'html', 'xml'])
    r = docsim.run(text, cfg, case['charset'], log)
    log.ev('fault', f['kind'], f['line'], f.get('ele'), f.get('comp'), r.verdict, r.exc_sig, len(r.errors))
    kind = f['kind']
    tag = '%s at %s line %d %s%s' % (kind, f['seg_id'], f['line'] + 1, 'ele %s' % f['ele'] if f.get('ele') else '',
                                     '-%s' % f['comp'] if f.get('comp') else '')
    loc = 'comp' if f.get('comp') else ('ele' if f.get('ele') else 'seg')
    sigbase = '%s|%s|%s' % (kind, 'neutral' if f['neutral'] else 'qualifier', f.get('ctx') or loc)
    if r.exc is not None:
        out.violate('exception', 'exception|%s|%s' % (kind, r.exc_sig), '%s: %s escaped: %s' % (tag, r.exc_sig, r.exc), fault=f)
        return
    lost = [x for x in (r.logtap.engine_errors() if r.logtap is not None else []) if 'No current segment in error_handler' in x]
    if lost:
        out.violate('lost', 'error-lost|' + sigbase, '%s: the error handler dropped an error it was given: %s' % (tag, lost[0][:200]), fault=f)
        return
    if r.verdict is not False:
        out.violate('accepted', 'accepted|' + sigbase, '%s: verdict %r for a faulty document' % (tag, r.verdict), fault=f)
        return
    if f.get('ctx') == 'before-SE':
        hit = [e for e in r.errors if e.level == 'seg' and e.code == '3' and e.seg_id == f['seg_id']]
        if not hit:
            out.violate('missing', 'missing-error|' + sigbase, '%s: no segment error 3 for %s although it is required and absent; got %r' % (
                tag, f['seg_id'], [(e.level, e.code, e.seg_id, e.seg_count) for e in r.errors]), fault=f)
        elif len(r.errors) != len(hit):
            e = [x for x in r.errors if x not in hit][0]
            out.violate('collateral', 'collateral|%s|%s%s' % (sigbase, e.level, e.code), '%s: additional error: %r %s' % (tag, e, e.msg), fault=f)
        else:
            # the gap is where the SE now stands
            so, pos = set_coords(mutated, where)
            if not any(e.seg_count == pos for e in hit):
                out.violate('position', 'wrong-position|' + sigbase, '%s: missing segment reported at position %r, the gap (now the SE) is at position %d' % (
                    tag, sorted(set(e.seg_count for e in hit)), pos), fault=f)
        return
    if f.get('ctx') == 'gap':
        # a segment between the envelope segments belongs to no set: rejected, reported, and filed under no set
        inset = [e for e in r.errors if e.st is not None]
        if inset:
            e = inset[0]
            out.violate('position', 'wrong-position|' + sigbase, '%s (after %s, outside any set): error filed under set %s of group %s: %r %s' % (
                tag, doc[f['line']]['id'], e.st, e.gs, e, e.msg), fault=f)
        elif len(r.errors) != 1:
            out.violate('collateral', 'collateral|%s|n%d' % (sigbase, len(r.errors)), '%s (after %s): %d errors reported for one stray segment: %r' % (
                tag, doc[f['line']]['id'], len(r.errors), r.errors[:4]), fault=f)
        return
    set_ord, pos_in_set = set_coords(mutated, where)
    coords = st_index_of(r, set_ord)
    slack = f.get('slack', 0)
    here = [e for e in r.errors if coords is not None and (e.isa, e.gs, e.st) == coords and e.seg_count is not None
            and pos_in_set <= e.seg_count <= pos_in_set + slack and e.level in ('seg', 'ele')]
    elsewhere = [e for e in r.errors if e not in here]
    if not f['neutral']:
        # the value takes part in matching: only rejection and an error at or after the position are required
        later = [e for e in r.errors if e.line is None or e.line >= where + 1 or e.level in ('st', 'gs', 'isa')]
        if not later:
            out.violate('unlocalised', 'no-error-at-or-after|' + sigbase, '%s: rejected, but every error lies before the fault' % tag, fault=f)
        return
    want = f['code']
    if f['op'] == 'replace':
        node = m.by_uid[doc[f['line']]['uid']]
        errs, dontcare, syn = R.segment_errors(node, f['new_vals'], case['charset'], entry['icvn'], m.codes)
        if kind == 'syntax_note':
            # the error stands at the element that is missing (for an exclusion: at the second one that is present)
            npos = list(f['note'][1])
            pres = [p_ for p_ in npos if p_ <= len(f['new_vals']) and R.present(f['new_vals'][p_ - 1])]
            miss = [p_ for p_ in npos if p_ not in pres]
            exp_pos = (pres[1] if len(pres) > 1 else npos[0]) if f['note'][0] == 'E' else (miss[0] if miss else npos[0])
            hit = [e for e in here if e.level == 'ele' and e.code == want and e.ele_pos == exp_pos]
            anypos = [e for e in here if e.level == 'ele' and e.code == want]
            if not anypos:
                out.violate('missing', 'missing-error|' + sigbase, '%s: no element error %s reported at the segment (got %r)' % (tag, want, here), fault=f)
                return
            if not hit:
                out.violate('position', 'wrong-position|' + sigbase,
                            '%s: error %s reported at element %s; by the note %s%s the element at fault is %d' % (
                                tag, want, [e.ele_pos for e in anypos], f['note'][0], f['note'][1], exp_pos), fault=f)
                return
        else:
            e_pos, c_pos = f['ele'], f['comp']
            at = [e for e in here if e.level == 'ele' and e.ele_pos == e_pos and (e.subele_pos == c_pos or (c_pos is None and e.subele_pos is None))]
            codes_at = set(e.code for e in at)
            ok = (want == '*' and codes_at) or (want in codes_at)
            if not ok:
                anywhere = [e for e in here if e.level == 'ele' and (e.code == want or want == '*')]
                if anywhere:
                    out.violate('position', 'wrong-position|' + sigbase,
                                '%s: error %s reported at element %s, injected at %s-%s' % (
                                    tag, want, [(e.ele_pos, e.subele_pos) for e in anywhere], e_pos, c_pos), fault=f)
                else:
                    out.violate('missing', 'missing-error|' + sigbase, '%s: expected element error %s at %s-%s, segment reports %r' % (
                        tag, want, e_pos, c_pos, [(e.level, e.code, e.ele_pos, e.subele_pos) for e in here]), fault=f)
                return
            if f.get('value') == 'new':
                newv = F.get_val(f['new_vals'], e_pos, c_pos)
                vals = set(e.value for e in at if e.code == want)
                if newv not in vals and kind != 'bad_class':
                    out.violate('value', 'wrong-offending-value|' + sigbase, '%s: offending value reported as %r, injected %r' % (tag, sorted(map(repr, vals)), newv), fault=f)
                    return
        # nothing unexpected at the fault segment
        for e in here:
            if e.level == 'seg':
                if e.code == '8' and any(x.level == 'ele' for x in here):
                    continue
                out.violate('extra', 'unexpected-seg-error|%s|%s' % (sigbase, e.code), '%s: segment-level error %s %r besides the injected fault' % (tag, e.code, e.msg), fault=f)
                return
            key = (e.ele_pos, e.subele_pos, e.code)
            if key in errs or (e.ele_pos, e.subele_pos, '*') in errs or (e.ele_pos, e.subele_pos) in dontcare:
                continue
            if (e.code, ) and any(e.code == sc for sc, _ in syn):
                continue
            if kind == 'too_many_ele' and e.code == '3':
                continue
            out.violate('extra', 'unexpected-element-error|%s|%s' % (sigbase, e.code),
                        '%s: error %s at element %s-%s (%r) is not implied by the definition (expected %r, syntax %r)' % (
                            tag, e.code, e.ele_pos, e.subele_pos, e.value, sorted(errs, key=repr), syn), fault=f)
            return
    else:
        codes = want.split('|')
        hit = [e for e in here if e.level == 'seg' and e.code in codes]
        if kind in ('missing_required_seg', 'missing_required_loop'):
            hit = [e for e in hit if e.seg_id == f['seg_id']]
        if not hit:
            anyw = [e for e in r.errors if e.level == 'seg' and e.code in codes]
            if anyw:
                out.violate('position', 'wrong-position|' + sigbase, '%s: error %s reported at %r, expected at set %d position %d' % (
                    tag, want, [(e.seg_id, e.seg_count) for e in anyw], set_ord, pos_in_set), fault=f)
            else:
                out.violate('missing', 'missing-error|' + sigbase, '%s: expected segment error %s at position %d; got %r' % (
                    tag, want, pos_in_set, [(e.level, e.code, e.seg_id, e.seg_count) for e in r.errors]), fault=f)
            return
        if kind in ('missing_required_seg', 'missing_required_loop') and len(hit) > 1:
            out.violate('extra', 'reported-twice|' + sigbase, '%s: the one missing %s is reported %d times, at positions %r' % (
                tag, 'loop' if kind == 'missing_required_loop' else 'segment', len(hit), [e.seg_count for e in hit]), fault=f)
            return
        extra = [e for e in here if e not in hit and not (kind in ('unknown_seg', 'misplaced_seg') and e.level == 'seg')]
        if kind == 'loop_over_max':
            extra = []
    # neutral fault: nothing else is reported, other sets stay accepted
    stray = [e for e in elsewhere]
    if kind == 'loop_over_max':
        # the excess instance is a copy: its own segments are legitimately validated; only other positions matter
        n_new = len(f['new_segs'])
        stray = [e for e in stray if not (e.seg_count is not None and pos_in_set <= e.seg_count < pos_in_set + n_new)]
    if stray:
        e = stray[0]
        out.violate('collateral', 'collateral|%s|%s%s' % (sigbase, e.level, e.code),
                    '%s: additional error away from the fault: %r %s' % (tag, e, e.msg), fault=f)
        return
    # acknowledgement carries the matching line and other sets remain accepted
    if r.ack and entry['fic'] != 'FA':
        check_ack(case, f, r, mutated, where, set_ord, pos_in_set, out, tag, sigbase)


def check_ack(case, f, r, mutated, where, set_ord, pos_in_set, out, tag, sigbase):
    try:
        a = AP.parse(r.ack)
    except T.NotX12 as e:
        out.violate('ack', 'ack-unreadable|' + sigbase, '%s: ack unreadable: %s' % (tag, e), fault=f)
        return
    txs = [tx for s in a.sets for tx in s['tx']]
    if len(txs) < set_ord:
        out.violate('ack', 'ack-set-missing|' + sigbase, '%s: ack lists %d sets, fault is in set %d' % (tag, len(txs), set_ord), fault=f)
        return
    for k, tx in enumerate(txs):
        code = tx['ak5'].get(1) if tx['ak5'] is not None else None
        if k + 1 == set_ord:
            if code == 'A':
                out.violate('ack', 'ack-accepts-faulty-set|' + sigbase, '%s: faulty set acknowledged A' % tag, fault=f)
                return
        elif code != 'A':
            out.violate('ack', 'ack-rejects-other-set|' + sigbase, '%s: set %d acknowledged %r although the fault is in set %d' % (tag, k + 1, code, set_ord), fault=f)
            return
    loc = 'comp' if f.get('comp') else ('ele' if f.get('ele') else 'seg')
    tx = txs[set_ord - 1]
    want = f['code']
    ok_pos = [str(pos_in_set + k) for k in range(f.get('slack', 0) + 1)]
    seg_lines = [s for s in tx['segs'] if s['seg'] is not None and s['seg'].get(2) in ok_pos]
    if not seg_lines:
        out.violate('ack', 'ack-no-segment-line|' + sigbase, '%s: no AK3/IK3 for position %d (has %r)' % (
            tag, pos_in_set, [s['seg'].values() for s in tx['segs'] if s['seg'] is not None]), fault=f)
        return
    if f['op'] == 'replace' and f['kind'] != 'syntax_note' and want not in ('*',):
        e_pos, c_pos = f['ele'], f['comp']
        found = False
        for sl in seg_lines:
            for el in sl['eles']:
                p = el.elements[0] if el.elements else ['']
                pe = p[0]
                pc = p[1] if len(p) > 1 and p[1] != '' else None
                if pe == str(e_pos) and (pc == (str(c_pos) if c_pos else None)) and el.get(3) == want:
                    found = True
        if not found and want in ('1', '2', '3', '4', '5', '6', '7', '8', '9', '10'):
            out.violate('ack', 'ack-no-element-line|' + sigbase, '%s: no AK4/IK4 with position %s-%s code %s (has %r)' % (
                tag, e_pos, c_pos, want, [el.values() for sl in seg_lines for el in sl['eles']]), fault=f)


def execute(case):
    seams.import_pyx12()
    out = core.Outcome()
    log = core.EventLog()
    if 'unsupported' in case:
        out.probe('unsupported:' + case['entry']['file'])
        out.digest = log.digest()
        return out
    entry = case['entry']
    m = mapspec.load_map(entry['file'])
    # the fault-free arm first: a base that is not accepted is not a base
    base_text = F.to_text(case['doc'])
    r0 = docsim.run(base_text, dict(case['cfgs'][0], sinks=['ack']), case['charset'], log)
    evals = 1
    if r0.exc is not None or r0.verdict is not True or r0.errors:
        out.probe('base-not-clean:' + entry['file'])
        out.info['evals'] = evals
        out.digest = log.digest()
        return out
    for idx, f in enumerate(case['faults']):
        n0 = len(out.violations)
        check_fault(case, f, m, out, log, idx)
        evals += 1
        out.fault(f['kind'])
        if not f['neutral']:
            out.probe('non-neutral')
        seg = case['doc'][f['line']]
        out.cover.add('%s|%s|%s-%s|%s' % (entry['file'], seg.get('path'), f.get('ele'), f.get('comp'), f['kind']))
    out.info['evals'] = evals
    out.info['knobs'] = {'map': entry['file'], 'charset': case['charset']}
    out.probe('enumerated-faults', case.get('enumerated', 0))
    out.probe('executed-faults', len(case['faults']))
    out.steps = log.seq
    out.digest = log.digest()
    return out


def shrink(case, still):
    best = dict(case)
    for f in case['faults']:
        c = dict(best, faults=[f])
        if still(c):
            return c
    return best


def sample_view(case, out):
    if 'doc' not in case:
        return {'map': case['entry']['file'], 'note': case.get('unsupported')}
    return {'map': case['entry']['file'], 'segments': len(case['doc']), 'enumerated_faults': case['enumerated'],
            'executed': len(case['faults']), 'first_faults': [{k: f.get(k) for k in ('kind', 'line', 'seg_id', 'ele', 'comp', 'code', 'neutral')}
                                                              for f in case['faults'][:6]]}
