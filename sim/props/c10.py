"""C10 — the tree editing API obeys its read/write/insert/delete/copy laws.

"Operations against the system and an in-memory model" with a single client:
seeded histories of 1..40 API calls on loop trees obtained from the real context
reader (root, copies, selected sub-loops), with valid and invalid paths, checked
call by call against refmodel.tree_model and against cross-invariants.
"""
import core
import seams
import mapspec
import docgen
import docsim
import observe
from refmodel import tree_model as M
from refmodel import values as V
from props import c09 as _c09

ID = 'C10'
LEVEL = 'exploration'
RULE = ('Loop trees yielded by the real context reader for structurally valid documents (every selectable map round-robin, a '
        'segment-anchored loop id per run); on the first tree with more than two segments a seeded history of 1..40 calls '
        '(get_value, set_value, exists, count, select, first, add_segment, add_loop, add_node, delete_segment, delete_node, copy) '
        'on root / copies / selected sub-loops / segment handles with paths taken from the ground truth (LOOP/LOOP/SEG[qual]NN-N, ../), '
        'edit bursts on one segment, add_loop through wrapper loops, and invalid paths (unknown ids, malformed, index 00 / -0) '
        'and invalid '
        'ones. One evaluation = one API call. distinct_nontrivial = distinct (operation, target kind, path shape, outcome class) keys.')
ASSUMPTIONS = [
    'refmodel.tree_model states path resolution, qualifier matching, insertion order, deletion and copy semantics',
    'get_value / set_value address the first match in document order over every instance of the loops named, like first() and select() (an earlier version tolerated "first instance only"; that hid /repo defect 47b9024)',
    'trees rooted at ISA_LOOP / GS_LOOP are drawn in 6% of the runs; their violations carry the suffix |envelope-tree (one of them is a listed known finding)',
    'values written never contain delimiters; invalid paths may answer None/False/0/[] or raise X12PathError, nothing else, and must leave the state unchanged',
]
COMPONENTS = {
    'real': ['pyx12.x12context.X12LoopDataNode / X12SegmentDataNode API', 'pyx12.x12context.X12ContextReader (to obtain trees)', 'pyx12.segment', 'pyx12.path'],
    'simulated': ['call history chosen by the seeded scheduler'],
    'models': ['refmodel.tree_model', 'docgen (new segments / loops to insert)'],
}
OPS = ['get_value', 'get_value', 'set_value', 'set_value', 'exists', 'count', 'select', 'first', 'add_segment', 'add_loop', 'add_node',
       'delete_segment', 'delete_node', 'copy', 'first_handle']


def tier_config(tier):
    if tier == 'thorough':
        return {'runs': 16000, 'wall': 820, 'det_probe': 4}
    return {'runs': 3000, 'wall': 150, 'det_probe': 3}


def seg_string(node, vals):
    parts = [':'.join(v) if isinstance(v, list) else v for v in vals]
    while parts and parts[-1] == '':
        parts.pop()
    return node.id + '*' + '*'.join(parts)


def path_for(rng, truth_rows, depth, want_ele=True, row=None):
    """a relative path from the tree root to a segment of the tree, from ground truth rows [path, inst, id, uid]"""
    row = row or rng.choice(truth_rows)
    loops = [x[0] for x in row[1][depth + 1:]]
    seg = row[2]
    qual = row[4]
    p = '/'.join(loops + [seg])
    shape = 'L%d/SEG' % len(loops)
    if qual and rng.random() < 0.6:
        p += '[%s]' % qual
        shape += '[q]'
    elif not qual and len(row) > 8 and rng.random() < 0.15:
        # a bracketed value on a segment the map's matching rule has no qualifier for: its own first element, or a foreign one
        p += '[%s]' % (row[8] if row[8] and rng.random() < 0.5 else 'ZZ9')
        shape += '[v]'
    if want_ele:
        e = rng.randint(1, max(1, min(row[5], 9)))
        p += '%02d' % e
        shape += 'NN'
        comp = row[6].get(str(e))
        if comp and rng.random() < 0.7:
            p += '-%d' % rng.randint(1, comp)
            shape += '-N'
    return p, shape


def generate(rng, tier, run, seed=0):
    ents = [e for e in docsim.entries() if e['file'] not in docsim.EXCLUDED_MAPS and e['fic'] != 'FA']
    entry = ents[run % len(ents)]
    case = {'entry': entry}
    try:
        g = docsim.draw_doc(rng, entry, size_cap=rng.choice([40, 90, 160]), structural=False, alphabet=V.PLAIN, charset='E', multi=(1, 1, 1))
    except docgen.Unsupported as e:
        case['unsupported'] = str(e)
        return case
    loops = [l for l in _c09.anchored_loops(g) if l not in ('ISA_LOOP', 'GS_LOOP')]
    if rng.random() < 0.06:
        loops = [l for l in _c09.anchored_loops(g) if l in ('ISA_LOOP', 'GS_LOOP')] or loops      # trees rooted at an envelope loop
    if not loops:
        case['unsupported'] = 'no segment-anchored loop'
        return case
    loop_id = rng.choice(loops)
    text = docsim.encode(rng, g.segs, ['~', '*', ':', '^'], 'lf')
    # the first instance of loop_id with > 2 segments
    inst_rows = {}
    order = []
    for s in g.segs:
        for k, x in enumerate(s.inst):
            if x[0] == loop_id:
                key = tuple(s.inst[:k + 1])
                if key not in inst_rows:
                    inst_rows[key] = []
                    order.append((key, k))
                quals = mapspec.qualifiers(s.node)
                qual = None
                if quals:
                    (qe, qc), codes = quals[0]
                    qv = s.get(qe, qc)
                    qual = qv if qv in codes and qv and qv.isalnum() and qv.upper() == qv else None
                comps = {str(i + 1): len(c.children) for i, c in enumerate(s.node.children) if c.kind == 'composite'}
                first = s.vals[0] if s.vals else ''
                first = first[0] if isinstance(first, list) and first else first
                inst_rows[key].append([s.node.path(), [list(y) for y in s.inst], s.node.id, s.node.uid, qual, len(s.node.children), comps,
                                       len(s.vals), first if isinstance(first, str) and first.isalnum() and first.upper() == first else None])
                break
    pick = None
    for n, (key, depth) in enumerate(order):
        if len(inst_rows[key]) > 2:
            pick = (n, key, depth)
            break
    if pick is None:
        pick = (0, order[0][0], order[0][1])
    tree_index, key, depth = pick
    rows = inst_rows[key]
    m = mapspec.load_map(entry['file'])
    root_loop = m.by_uid[rows[0][3]].parent
    gen = docgen.Gen(rng, m, entry['icvn'], entry['fic'], entry['vriic'], docgen.Knobs(rich=0.4, alphabet=V.PLAIN))
    # handles known to the generator: index -> mapspec loop node (None = unknown)
    handles = [root_loop]
    ops = []
    for _ in range(rng.choice([1, 3, 8, 15, 25, 40])):
        op = rng.choice(OPS)
        h = rng.randrange(len(handles))
        hl = handles[h]
        o = {'op': op, 'h': h}
        if op in ('get_value', 'set_value', 'exists', 'count', 'select', 'first', 'delete_node', 'first_handle'):
            r = rng.random()
            if r < 0.7 and h == 0:
                p, shape = path_for(rng, rows, depth, want_ele=op in ('get_value', 'set_value') or (op == 'delete_node' and rng.random() < 0.2))
                if op in ('exists', 'count', 'select', 'first', 'delete_node', 'first_handle') and rng.random() < 0.4:
                    # address a loop instead of a segment
                    row = rng.choice(rows)
                    lp = [x[0] for x in row[1][depth + 1:]]
                    if lp:
                        p, shape = '/'.join(lp[:rng.randint(1, len(lp))]), 'LOOPS'
            elif r < 0.8:
                p, shape = path_for(rng, rows, depth, want_ele=op in ('get_value', 'set_value'))
                p, shape = rng.choice(['../', '../../']) + p, '../' + shape
            else:
                bad = [('ZZZ/NM101', 'bad-loop'), ('ZZ901', 'bad-seg'), ('NM1[ZZZZ]03', 'bad-qual'), ('[QQ]02', 'malformed'),
                       ('2000X/2300Y', 'bad-loops')]
                if rows and rng.random() < 0.5:
                    # index 0: elements count from 01, components from 1 (an existing segment of the tree, so nothing else is wrong)
                    rw = rng.choice(rows)
                    lp = '/'.join([x[0] for x in rw[1][depth + 1:]] + [rw[2]])
                    bad = [(lp + '00', 'zero-index'), (lp + '%02d-0' % rng.randint(1, max(1, min(rw[5], 9))), 'zero-index')]
                if op not in ('get_value', 'set_value'):
                    # get_value on a bare segment id raises IndexError by the suite's own tests; not an invalid *path*
                    bad += [('NM1', 'seg-only'), ('REF[1W]', 'seg-qual-only'), ('', 'empty')]
                p, shape = rng.choice(bad)
            o.update({'path': p, 'shape': shape})
            if op in ('get_value', 'set_value'):
                # used instead of 'path' when the handle turns out to be a segment node (resolved against the model at run time)
                o['segpath'] = {'id': rng.choice(['own', 'own', 'own', 'other']), 'qual': rng.choice([None, 'own', 'wrong', 'wrong']),
                                'ele': rng.randint(1, 4)}
            if op == 'set_value':
                o['val'] = ''.join(rng.choice(V.PLAIN) for _ in range(rng.randint(1, 6)))
                if h == 0 and shape.endswith(('NN', '-N')) and not shape.startswith('../') and rng.random() < 0.3:
                    # an edit burst on one segment: several writes to different positions of the same segment (first far out,
                    # then into the gap), each followed by the whole-tree comparison
                    row = next((r_ for r_ in rows if p.split('[')[0].rstrip('0123456789-').endswith(r_[2])), None)
                    gap_rows = [r_ for r_ in rows if len([k for k in r_[6] if int(k) > r_[7]]) >= 2 and max(int(k) for k in r_[6]) >= r_[7] + 3]
                    if gap_rows and rng.random() < 0.5:
                        # far beyond the end first (blank elements are padded in), then a component write into one of the padded blanks
                        gr = rng.choice(gap_rows)
                        base_p = '/'.join([x[0] for x in gr[1][depth + 1:]] + [gr[2]]) + ('[%s]' % gr[4] if gr[4] else '')
                        far = max(int(k) for k in gr[6])
                        mids = [int(k) for k in gr[6] if gr[7] < int(k) < far]
                        ops.append({'op': 'set_value', 'h': 0, 'path': '%s%02d-%d' % (base_p, far, rng.randint(1, max(1, gr[6][str(far)]))), 'shape': 'gap-far',
                                    'val': 'F' + o['val'][:3]})
                        if mids:
                            mid = rng.choice(mids)
                            ops.append({'op': 'set_value', 'h': 0, 'path': '%s%02d-%d' % (base_p, mid, rng.randint(1, max(1, gr[6][str(mid)]))), 'shape': 'gap-mid',
                                        'val': 'M' + o['val'][:3]})
                        continue
                    if row is not None:
                        ops.append(o)
                        for _ in range(rng.choice([1, 2, 3])):
                            p2, shape2 = path_for(rng, rows, depth, want_ele=True, row=row)
                            o2 = {'op': 'set_value', 'h': 0, 'path': p2, 'shape': shape2,
                                  'val': ''.join(rng.choice(V.PLAIN) for _ in range(rng.randint(1, 4)))}
                            ops.append(o2)
                        continue
        elif op in ('add_segment', 'add_loop', 'delete_segment'):
            if hl is None:
                continue
            kids = [c for c in hl.children if c.kind == ('segment' if op != 'add_loop' else 'loop') and c.usage != 'N']
            wrapped = False
            if op == 'add_loop':
                wr = [c for c in kids if c.children and c.children[0].kind == 'loop' and c.children[0].children
                      and c.children[0].children[0].kind == 'segment']
                kids = [c for c in kids if c.children and c.children[0].kind == 'segment' and c.type != 'wrapper']
                if wr and rng.random() < 0.25:
                    # the anchor of a loop that is only reachable through a wrapper loop: to be refused without any edit
                    kids, wrapped = [rng.choice(wr).children[0]], True
            if not kids:
                continue
            c = rng.choice(kids)
            node = c if op != 'add_loop' else c.children[0]
            try:
                vals = gen.gen_values(node)
            except docgen.Unsupported:
                continue
            if node.id in ('HL', 'LX') and vals:
                vals[0] = '1'
            o['seg'] = seg_string(node, vals)
            o['pos'] = c.pos
            o['uid'] = node.uid
            if wrapped:
                o['wrapped'] = True
            if op == 'add_segment' and rng.random() < 0.3:
                o['as_object'] = True
            if op == 'add_loop' and rng.random() < 0.15:
                o['bogus'] = True
            if op == 'delete_segment' and rng.random() < 0.7 and h == 0:
                # prefer a segment that is really there: a direct child of the root instance
                direct = [r_ for r_ in rows if len(r_[1]) == depth + 1]
                if len(direct) > 1:
                    o['existing'] = rng.randrange(1, len(direct))
        elif op == 'add_node':
            o['src'] = rng.randrange(len(handles))
        elif op == 'copy':
            handles.append(hl)
        if op == 'first_handle':
            # the found node (if a loop) becomes a new handle; the generator cannot know its map node cheaply
            handles.append(None)
        ops.append(o)
    case.update({'text': text, 'loop_id': loop_id, 'tree_index': tree_index, 'ops': ops})
    return case


# ------------------------------------------------------------------ execution

def real_ser(node):
    out = []
    for d in node.iterate_segments():
        s = d['segment']
        out.append((s.get_seg_id(), [[e.get_value() for e in c.elements] for c in s.elements]))
    return out


def model_ser(m):
    return m.ser() if m.kind == 'loop' else [m.ser()]


def model_seg_from_string(s, uid, mspec):
    parts = s.split('*')
    node = mspec.by_uid.get(uid)
    q = None
    if node is not None:
        ql = mapspec.qualifiers(node)
        if ql:
            (e, c), codes = ql[0]
            q = (e, c, codes)
    return M.MSeg(node.pos if node is not None else 0, parts[0], [p.split(':') for p in parts[1:]], q)


def execute(case):
    out = _execute(case)
    if case.get('loop_id') in ('ISA_LOOP', 'GS_LOOP'):
        # trees rooted at an envelope loop are a case of their own (their GS_LOOP nodes hang on the control map)
        for v in out.violations:
            v.sig += '|envelope-tree'
    return out


def _execute(case):
    seams.import_pyx12()
    import pyx12.x12context
    import pyx12.params
    import pyx12.error_handler
    import pyx12.segment
    from pyx12.errors import X12PathError
    out = core.Outcome()
    log = core.EventLog()
    if 'unsupported' in case:
        out.probe('unsupported')
        out.digest = log.digest()
        return out
    mspec = mapspec.load_map(case['entry']['file'])
    rd = pyx12.x12context.X12ContextReader(pyx12.params.params(), pyx12.error_handler.errh_null(), seams.SimSource(case['text'], None))
    tree = None
    n = 0
    for node in rd.iter_segments(case['loop_id']):
        if node.type == 'loop':
            if n == case['tree_index']:
                tree = node
                break
            n += 1
    if tree is None:
        out.probe('no-tree')
        out.digest = log.digest()
        return out
    real = [tree]
    model = [M.build(tree)]
    evals = 0

    def sync_check(tag):
        for k, (r, m) in enumerate(zip(real, model)):
            if r is None:
                continue
            if real_ser(r) != model_ser(m):
                a, b = real_ser(r), model_ser(m)
                j = next((i for i in range(min(len(a), len(b))) if a[i] != b[i]), min(len(a), len(b)))
                return 'handle %d: serialised tree differs from the model at segment %d: real %r, model %r' % (
                    k, j, a[j] if j < len(a) else None, b[j] if j < len(b) else None)
        return None
    msg = sync_check('initial')
    if msg:
        out.violate('model', 'initial-sync', msg)
        return fin(out, log, evals)
    for n, o in enumerate(case['ops']):
        op = o['op']
        h = o['h']
        if op == 'nohandle':
            real.append(None)
            model.append(None)
            continue
        if h >= len(real) or real[h] is None:
            if op in ('copy', 'first_handle'):
                real.append(None)       # a handle slot is consumed even when the target is dead
                model.append(None)
            continue
        r, m = real[h], model[h]
        if r.type != 'loop':
            if op in ('copy', 'first_handle'):
                real.append(None)
                model.append(None)
            if r.type == 'seg' and m.kind == 'seg' and op in ('exists', 'count', 'select', 'first') and o.get('path') \
                    and not str(o.get('shape', '')).startswith(('bad', 'malformed', 'zero', 'seg-only', 'seg-qual', 'empty')):
                # queries from a segment handle: only '../' can lead anywhere; the four must agree with one another and with the model
                p = o['path'] if o['path'].startswith('../') else '../' + o['path']
                evals += 1
                log.ev('segquery', op, h, p)
                try:
                    try:
                        want = len(M.select(m, p))
                    except (M.BadPath, RecursionError):
                        want = None
                    try:
                        ex, ct, fi, se = r.exists(p), r.count(p), r.first(p), len(list(r.select(p)))
                        if not (bool(ex) == (ct > 0) == (fi is not None) == (se > 0)) or ct != se:
                            out.violate('api', 'query-disagreement|seg-handle', 'op %d on segment handle %d, path %r: exists=%r count=%r first=%r len(select)=%r' % (
                                n, h, p, ex, ct, fi is not None, se))
                        elif want is not None and ct != want:
                            out.violate('api', 'count|seg-handle', 'op %d on segment handle %d, path %r: count %r, model %r' % (n, h, p, ct, want))
                    except X12PathError:
                        pass
                except Exception as e:
                    out.violate('exception', 'exception|%s|seg-handle|%s' % (op, observe.exc_sig(e)), 'op %d %s(%r) on segment handle %d raised %s: %s' % (
                        n, op, p, h, observe.exc_sig(e), e))
                out.cover.add('%s|seg-handle|query' % op)
                if out.violations:
                    break
            if r.type == 'seg' and m.kind == 'seg' and op in ('get_value', 'set_value') and 'segpath' in o:
                evals += 1
                msg = seg_handle_op(r, m, o, n, h, log, out)
                if msg is None:
                    msg = sync_check('op %d %s on segment handle %d' % (n, op, h))
                    if msg:
                        out.violate('state', 'state|%s|seg-handle' % op, 'op %d %s on segment handle %d: %s' % (n, op, h, msg))
                if out.violations:
                    break
            continue
        evals += 1
        log.ev('op', op, h, o.get('path'), o.get('seg'))
        shape = o.get('shape', '-')
        tag = 'op %d %s(%s) on handle %d' % (n, op, o.get('path', o.get('seg', '')), h)
        outcome = 'ok'
        try:
            if op in ('get_value', 'set_value', 'exists', 'count', 'select', 'first', 'delete_node', 'first_handle'):
                p = o['path']
                # ---- model side
                mres = None
                mbad = False
                try:
                    if op == 'delete_node' and M.parse_path(p)[4] is not None:
                        raise M.BadPath(p)          # an element is not a node: nothing may be deleted
                    if op in ('get_value', 'set_value'):
                        ms, ele, sub = M.first_segment(m, p)
                        allm = [x for x in M.select(m, p.split('[')[0] if False else p) if x.kind == 'seg'] if ms is not None or True else []
                    else:
                        msel = M.select(m, p)
                except M.BadPath:
                    mbad = True
                except RecursionError:
                    mbad = True
                # ---- real side
                rexc = None
                rres = None
                try:
                    if op == 'get_value':
                        rres = r.get_value(p)
                    elif op == 'set_value':
                        r.set_value(p, o['val'])
                    elif op == 'exists':
                        rres = r.exists(p)
                    elif op == 'count':
                        rres = r.count(p)
                    elif op == 'select':
                        rres = list(r.select(p))
                    elif op in ('first', 'first_handle'):
                        rres = r.first(p)
                    elif op == 'delete_node':
                        rres = r.delete_node(p)
                except X12PathError as e:
                    rexc = e
                # ---- compare
                if mbad:
                    outcome = 'invalid'
                    if op == 'first_handle':
                        real.append(None)       # keep the handle numbering of the generator
                        model.append(None)
                    if rexc is None and rres not in (None, False, 0, []):
                        out.violate('api', 'invalid-path-answered|%s' % op, '%s: malformed path answered %r' % (tag, rres))
                        break
                elif op == 'get_value':
                    if ms is None or ele is None:
                        outcome = 'none'
                        if rexc is None and rres is not None:
                            out.violate('api', 'get-value-phantom|%s' % shape, '%s returned %r, the model finds no such segment' % (tag, rres))
                            break
                    else:
                        want = M.seg_value(ms, ele, sub)
                        want = want.replace(':JOIN:', ':') if want is not None else None
                        if rexc is not None or rres != want:
                            out.violate('api', 'get-value|%s' % shape, '%s returned %r (%s), model %r' % (tag, rres, rexc, want))
                            break
                        outcome = 'value' if want is not None else 'beyond-end'
                elif op == 'set_value':
                    if ms is None or ele is None:
                        outcome = 'refused'
                        if rexc is None:
                            # did the real tree change although the model finds no target?
                            pass
                    else:
                        if rexc is not None:
                            out.violate('api', 'set-value-refused|%s' % shape, '%s raised %s although the segment exists' % (tag, rexc))
                            break
                        M.set_value(ms, ele, sub, o['val'])
                        overwrote_qual = '[' in p and ((ms.qual is not None and ms.qual[0] == ele and (ms.qual[1] or 1) == (sub or 1)) or
                                                       (ms.qual is None and ele == 1 and (sub or 1) == 1))
                        back = o['val'] if overwrote_qual else r.get_value(p)
                        if back != o['val']:
                            out.violate('api', 'set-then-get|%s' % shape, '%s then get_value -> %r' % (tag, back))
                            break
                        outcome = 'set'
                elif op in ('exists', 'count', 'select', 'first', 'first_handle', 'delete_node'):
                    nsel = len(msel)
                    # cross-invariants on the real side (before a delete)
                    if op == 'exists' and rexc is None and bool(rres) != (nsel > 0):
                        out.violate('api', 'exists|%s' % shape, '%s -> %r, model counts %d' % (tag, rres, nsel))
                        break
                    if op == 'count' and rexc is None and rres != nsel:
                        out.violate('api', 'count|%s' % shape, '%s -> %r, model counts %d' % (tag, rres, nsel))
                        break
                    if op == 'select' and rexc is None:
                        if len(rres) != nsel:
                            out.violate('api', 'select|%s' % shape, '%s yields %d nodes, model %d' % (tag, len(rres), nsel))
                            break
                        for a, b in zip(rres, msel):
                            if real_ser(a) != model_ser(b):
                                out.violate('api', 'select-content|%s' % shape, '%s yields a different node than the model' % tag)
                                break
                    if op in ('first', 'first_handle') and rexc is None:
                        if (rres is None) != (nsel == 0):
                            out.violate('api', 'first|%s' % shape, '%s -> %r, model counts %d' % (tag, rres, nsel))
                            break
                        if rres is not None and real_ser(rres) != model_ser(msel[0]):
                            out.violate('api', 'first-content|%s' % shape, '%s is not the first match of the model' % tag)
                            break
                        if op == 'first_handle':
                            if rres is not None and rres.type in ('loop', 'seg'):
                                real.append(rres)
                                model.append(msel[0])
                            else:
                                real.append(None)
                                model.append(None)
                    elif op == 'first_handle':
                        real.append(None)       # the call raised X12PathError: still one handle slot
                        model.append(None)
                    if op == 'delete_node' and rexc is None:
                        if bool(rres) != (nsel > 0):
                            out.violate('api', 'delete-node-result|%s' % shape, '%s -> %r, model finds %d candidates' % (tag, rres, nsel))
                            break
                        if nsel:
                            victim = msel[0]
                            victim.parent.children = [c for c in victim.parent.children if c is not victim]
                            for k in range(len(model)):
                                x = model[k]
                                while x is not None and real[k] is not None:
                                    if x is victim:
                                        real[k] = None        # a handle into the deleted subtree is dead
                                        break
                                    x = x.parent
                    # exists <=> count > 0 <=> first is not None ; count == len(select)   (on the state after the call)
                    if rexc is None and op != 'delete_node':
                        try:
                            ex, ct, fi, se = r.exists(p), r.count(p), r.first(p), len(list(r.select(p)))
                            if not (bool(ex) == (ct > 0) == (fi is not None)) or ct != se:
                                out.violate('api', 'query-disagreement|%s' % shape, '%s: exists=%r count=%r first=%r len(select)=%r' % (tag, ex, ct, fi is not None, se))
                                break
                        except X12PathError:
                            pass
                    outcome = 'n=%d' % min(nsel, 2)
            elif op == 'copy':
                real.append(r.copy())
                model.append(M.deep_copy(m))
            elif op in ('add_segment', 'add_loop'):
                seg = o['seg']
                if o.get('bogus'):
                    # a segment that opens no child loop of this node: refused with the path error, nothing added
                    try:
                        r.add_loop('ZQ9*1~')
                        out.violate('api', 'add-loop-bogus-accepted', '%s: add_loop of a segment unknown to the map was accepted' % tag)
                        break
                    except X12PathError:
                        pass
                try:
                    if op == 'add_segment' and o.get('as_object'):
                        # the caller hands over a Segment object and goes on using it: the tree must hold its own copy
                        so = pyx12.segment.Segment(seg + '~', '~', '*', ':')
                        r.add_segment(so)
                        so.set('01', 'ALIAS')
                    elif op == 'add_segment':
                        r.add_segment(seg + '~')
                    else:
                        r.add_loop(seg + '~')
                    ok = True
                except X12PathError:
                    ok = False
                ms = model_seg_from_string(seg, o['uid'], mspec)
                if ok and o.get('wrapped'):
                    out.violate('api', 'add-loop-through-wrapper', '%s: accepted although the segment opens a loop below a wrapper loop, not a child loop of this node' % tag)
                    break
                if ok:
                    if op == 'add_segment':
                        idx = M.insert_index(m, o['pos'])
                        ms.parent = m
                        m.children.insert(idx, ms)
                    else:
                        ml = M.MLoop(o['pos'], mspec.by_uid[o['uid']].parent.id, m)
                        ms.parent = ml
                        ml.children.append(ms)
                        m.children.insert(M.insert_index(m, o['pos']), ml)
                    outcome = 'added'
                else:
                    outcome = 'refused'
                    out.probe('add-refused')
            elif op == 'delete_segment':
                seg = o['seg']
                if 'existing' in o:
                    kids = [c for c in m.children]
                    k = o['existing']
                    if k < len(kids) and kids[k].kind == 'seg':
                        c = kids[k]
                        seg = c.id + '*' + '*'.join(':'.join(x) for x in c.vals)
                res = r.delete_segment(seg + '~')
                target = pyx12.segment.Segment(seg + '~', '~', '*', ':')
                tv = [[e.get_value() for e in c.elements] for c in target.elements]
                victim = None
                for i, c in enumerate(m.children):
                    if i >= 1 and c.kind == 'seg' and c.id == target.get_seg_id() and c.vals == tv:
                        victim = c
                        break
                if victim is not None and victim.qual is not None:
                    e_, s_, codes_ = victim.qual
                    qv = M.seg_value(victim, e_, s_)
                    if qv not in codes_ and not res:
                        victim = None      # a segment whose qualifier no longer names a map node cannot be addressed by value
                if bool(res) != (victim is not None):
                    out.violate('api', 'delete-segment-result', '%s -> %r, model %s' % (tag, res, 'finds it' if victim else 'finds nothing'))
                    break
                if victim is not None:
                    m.children = [c for c in m.children if c is not victim]
                outcome = 'deleted' if victim else 'absent'
            elif op == 'add_node':
                src = o['src']
                if src < len(real) and real[src] is not None and model[src].kind == 'loop':
                    kids_r = [c for c in real[src].children if c.type is not None]
                    kids_m = list(model[src].children)
                    if kids_r:
                        cr, cm = kids_r[-1].copy(), M.deep_copy(kids_m[-1])
                        try:
                            r.add_node(cr)
                            ok = True
                        except X12PathError:
                            ok = False
                        same_parent_def = model[src].id == m.id
                        if ok:
                            cm.parent = m
                            m.children.insert(M.insert_index(m, cm.pos), cm)
                            outcome = 'added'
                        else:
                            outcome = 'refused'
        except Exception as e:
            out.violate('exception', 'exception|%s|%s|%s' % (op, shape, observe.exc_sig(e)), '%s raised %s: %s' % (tag, observe.exc_sig(e), e))
            break
        msg = sync_check(tag)
        if msg:
            out.violate('state', 'state|%s|%s' % (op, shape if op not in ('add_segment', 'add_loop', 'add_node', 'delete_segment', 'copy') else outcome),
                        '%s: %s' % (tag, msg))
            break
        out.cover.add('%s|%s|%s|%s' % (op, 'root' if h == 0 else 'handle', shape, outcome))
    return fin(out, log, evals)


def seg_handle_op(r, m, o, n, h, log, out):
    """get_value / set_value on a segment node obtained from first(): the path may only name that segment itself"""
    from pyx12.errors import X12PathError
    sp = o['segpath']
    sid = m.id if sp['id'] == 'own' else ('ZZ9' if m.id != 'ZZ9' else 'ZZ8')
    matches = sp['id'] == 'own'
    qualtxt = ''
    if sp['qual'] and m.qual is not None:
        e_, s_, codes_ = m.qual
        qv = M.seg_value(m, e_, s_)
        if sp['qual'] == 'own':
            if qv and qv.isalnum() and qv.upper() == qv and qv in codes_:
                qualtxt = '[%s]' % qv
        else:
            other = sorted(c for c in codes_ if c != qv and c.isalnum() and c.upper() == c)
            if other:
                qualtxt = '[%s]' % other[0]
                matches = False
    ele = min(sp['ele'], len(m.vals)) or 1
    if o['op'] == 'set_value' and (ele > len(m.vals) or len(m.vals[ele - 1]) != 1):
        return None           # keep to simple, existing elements
    p = '%s%s%02d' % (sid, qualtxt, ele)
    shape = 'seg-handle|%s|%s' % (sp['id'], 'q-' + str(sp['qual']) if qualtxt else 'noq')
    tag = 'op %d %s(%s) on segment handle %d (%s)' % (n, o['op'], p, h, m.id)
    log.ev('segop', o['op'], h, p)
    try:
        if o['op'] == 'get_value':
            try:
                got = r.get_value(p)
                exc = None
            except X12PathError as e:
                got, exc = None, e
            want = M.seg_value(m, ele, None) if matches else None
            want = want.replace(':JOIN:', ':') if want is not None else None
            if matches and (exc is not None or got != want):
                out.violate('api', 'get-value|' + shape, '%s returned %r (%s), the segment holds %r' % (tag, got, exc, want))
            elif not matches and got is not None:
                out.violate('api', 'get-value-phantom|' + shape, '%s returned %r although the path does not name this segment' % (tag, got))
        else:
            try:
                r.set_value(p, o['val'])
                exc = None
            except X12PathError as e:
                exc = e
            if matches:
                if exc is not None:
                    out.violate('api', 'set-value-refused|' + shape, '%s raised %s although the path names this segment' % (tag, exc))
                else:
                    M.set_value(m, ele, None, o['val'])
            elif exc is None:
                out.violate('api', 'set-value-accepted|' + shape, '%s did not raise although the path does not name this segment' % tag)
    except Exception as e:
        out.violate('exception', 'exception|%s|seg-handle|%s' % (o['op'], observe.exc_sig(e)), '%s raised %s: %s' % (tag, observe.exc_sig(e), e))
    out.cover.add('%s|seg-handle|%s|%s' % (o['op'], shape, 'match' if matches else 'nomatch'))
    return 'violated' if out.violations else None


def fin(out, log, evals):
    out.info['evals'] = max(evals, 1)
    out.steps = log.seq
    out.digest = log.digest()
    return out


def shrink(case, still):
    best = dict(case)
    ops = best['ops']
    idx = list(range(len(ops)))

    def build(keep):
        ks = set(keep)
        out = []
        for i, o in enumerate(ops):
            if i in ks:
                out.append(o)
            elif o['op'] in ('copy', 'first_handle'):
                out.append({'op': 'nohandle', 'h': 0})      # keeps the handle numbering of the remaining operations
        return out
    keep = core.ddmin(idx, lambda sub: still(dict(best, ops=build(sub))), 150)
    return dict(best, ops=build(keep))


def sample_view(case, out):
    if 'ops' not in case:
        return {'note': case.get('unsupported')}
    return {'map': case['entry']['file'], 'loop_id': case['loop_id'], 'ops': case['ops'][:8], 'n_ops': len(case['ops'])}
