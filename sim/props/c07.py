"""C07 — validation is total: any input yields a verdict or a documented refusal.

Workload: valid documents of every map, envelope skeletons, raw strings.
Faults: 1..4 structural/byte faults per run x stream faults (EOF at any
offset, chunk plans) x every sink subset x both charsets x three entry points
(x12n_document, X12Reader iteration + cleanup, X12ContextReader.iter_segments).
Oracle: only documented outcomes are allowed.
"""
import core
import seams
import mapspec
import docgen
import docsim
import envgen
import observe
import faults as F
from refmodel import tokenise as T
from props import c04 as _c04

ID = 'C07'
LEVEL = 'fault_enumeration'
RULE = ('Valid documents of every selectable map, envelope skeletons and raw strings, hit by 1..4 faults from a 29-kind '
        'structural catalogue (delete/duplicate/swap/move/retag segment, truncate at segment or character, orphan trailers, '
        'nested headers, non-numeric/missing counts, extra elements/components, empty and blank-only segments, doubled '
        'terminators, over-long segments, byte flips, delimiters dropped into data, damaged ISA, non-ASCII characters, letters or '
        'digits as delimiters, a registered but unloadable map) plus the envelope faults of '
        'C04, then run through one of three entry points under a chunk plan, an EOF offset (sampled; for documents <= 4 KiB every 50th run of the thorough tier (<= 1.2 KiB, every 500th, in the '
        'quick tier) is a crash-point sweep: every offset up to 400 characters, beyond that the whole ISA, every offset next to a segment terminator and an even sample, at most ~700 offsets), one of the 8 sink subsets and a charset. distinct_nontrivial = distinct '
        '(entry point, sink subset, sorted fault kinds, outcome class) keys.')
ASSUMPTIONS = [
    'documented outcomes: True; False; X12Error iff the first 106 characters are not a supported ISA header or a later ISA '
    'segment does not have 16 elements; EngineError "Map not found" iff maps.xml has no entry for ISA12/GS01/GS08(/BHT02)',
    'for plain reading and the context reader a yielded stream that ends without exception is the "verdict"',
    'a violation signature is (entry point, exception type, innermost pyx12 frame file:function)',
    'termination: every read loop must consume input (read budget 8*len+64 per source); a stall is a violation, a wall-clock '
    'timeout is a harness error',
]
COMPONENTS = {
    'real': ['pyx12.x12n_document.x12n_document', 'pyx12.x12file.X12Reader', 'pyx12.x12context.X12ContextReader',
             'error_handler, error_997/999, error_html, x12xml_simple, map_walker, map_if'],
    'simulated': ['source device (chunk plans, EOF anywhere)', 'sinks', 'clock', 'PRNG', 'stored document with structural/byte faults'],
    'models': ['mapspec (map index precondition)', 'refmodel.tokenise (ISA header precondition)', 'docgen / envgen (workload)'],
}
STRUCT = ['seg_delete', 'seg_dup', 'seg_swap', 'seg_move', 'retag', 'retag_env', 'trunc_seg', 'trunc_char', 'extra_ele', 'extra_comp',
          'empty_seg', 'blank_seg', 'double_term', 'long_seg', 'byte_flip', 'delim_in_data', 'isa_damage', 'isa_version',
          'drop_all_ele', 'env_short', 'env_short', 'odd_value', 'odd_value', 'char_delete', 'isa_field', 'isa_field', 'trailing_isa', 'gs_unknown_map', 'lowercase_id', 'inner_isa_short', 'bht_tspc', 'leading_blank', 'non_ascii', 'alnum_delim', 'gs_broken_map']
ENTRY = ['validate', 'validate', 'validate', 'reader', 'context', 'context_loop']


def tier_config(tier):
    if tier == 'thorough':
        return {'runs': 60000, 'wall': 820, 'det_probe': 4}
    return {'runs': 5000, 'wall': 150, 'det_probe': 3}


# ------------------------------------------------------------------ mutation of flat segment lists

def mutate(rng, segs, kind):
    """segs: list of [id, e1, ...] (composites joined with ':').  -> True if fired"""
    n = len(segs)
    if n < 2:
        return False
    body = [i for i in range(1, n)]
    i = rng.choice(body)
    if kind in ('odd_value', 'drop_all_ele', 'extra_comp', 'extra_ele') and rng.random() < 0.5:
        # bias to the segments whose values the reader itself interprets (counts, control numbers, HL / LX numbering)
        special = [k for k in body if segs[k][0] in ('HL', 'LX', 'CLM', 'ST', 'SE', 'GS', 'GE', 'IEA', 'BHT')]
        if special:
            i = rng.choice(special)
    if kind == 'seg_delete':
        del segs[i]
    elif kind == 'seg_dup':
        segs.insert(i, list(segs[i]))
    elif kind == 'seg_swap':
        if i + 1 >= n:
            return False
        segs[i], segs[i + 1] = segs[i + 1], segs[i]
    elif kind == 'seg_move':
        s = segs.pop(i)
        segs.insert(rng.randint(1, len(segs)), s)
    elif kind == 'retag':
        segs[i] = [rng.choice(['ZZZ', 'NM1', 'REF', 'HL', 'CLM', 'LX', 'BHT', 'XX', 'A', ''])] + segs[i][1:]
    elif kind == 'retag_env':
        segs[i] = [rng.choice(['ISA', 'GS', 'ST', 'SE', 'GE', 'IEA', 'TA1'])] + segs[i][1:]
    elif kind == 'extra_ele':
        segs[i] = segs[i] + ['X'] * rng.choice([1, 2, 30, 120])
    elif kind == 'extra_comp':
        if len(segs[i]) < 2:
            return False
        k = rng.randint(1, len(segs[i]) - 1)
        segs[i] = list(segs[i])
        segs[i][k] = segs[i][k] + ':A:B:C:D:E:F:G:H'[:rng.choice([2, 4, 16])]
    elif kind == 'empty_seg':
        segs.insert(i, [''])
    elif kind == 'blank_seg':
        segs.insert(i, [rng.choice([' ', '   '])])
    elif kind == 'double_term':
        segs.insert(i, ['\x00DOUBLE'])
    elif kind == 'long_seg':
        segs[i] = segs[i] + ['L' * rng.choice([300, 9000, 20000])]
    elif kind == 'drop_all_ele':
        segs[i] = segs[i][:1]
    elif kind == 'lowercase_id':
        segs[i] = [segs[i][0].lower()] + segs[i][1:]
    elif kind == 'leading_blank':
        segs[i] = [' ' + segs[i][0]] + segs[i][1:]
    elif kind == 'odd_value':
        if len(segs[i]) < 2:
            return False
        k = rng.randint(1, len(segs[i]) - 1)
        segs[i] = list(segs[i])
        segs[i][k] = rng.choice(['20150301-20150302-20150303', '-', '--', '.', '-.', '1e5', '2004-01-01', '00000000', '99999999-99999999',
                                 '2460', '-0', '+1', ' 1', '1 ', '\x7f', 'RD8', 'A' * 300, '1.2.3'])
    elif kind == 'isa_field':
        # a later ISA keeps its 16 elements (so the reader accepts it) but one fixed-width field has the wrong width
        g = [k for k in body if segs[k][0] == 'ISA' and len(segs[k]) == 17]
        if not g:
            return False
        k = rng.choice(g)
        j = rng.choice([5, 6, 7, 8, 11, 12, 13, 15])
        segs[k] = list(segs[k])
        v = segs[k][j]
        segs[k][j] = rng.choice([v[:-1], v + 'X', '', v[1:]])
    elif kind == 'trailing_isa':
        # a further interchange that consists of a lone ISA (input cut right after it), possibly with a wrong-width field
        isa = list(segs[0])
        if len(isa) != 17:
            return False
        isa[13] = '%09d' % rng.randint(1, 999999999)
        if rng.random() < 0.7:
            j = rng.choice([5, 6, 7, 8, 11, 12, 12, 15])
            isa[j] = rng.choice([isa[j][:-1], isa[j] + 'X', isa[j][1:]])
        segs.append(isa)
    elif kind == 'env_short':
        g = [k for k in body if segs[k][0] in ('ST', 'GS', 'SE', 'GE', 'IEA') and len(segs[k]) > 1]
        if not g:
            return False
        k = rng.choice(g)
        segs[k] = segs[k][:rng.randint(1, len(segs[k]) - 1)]
    elif kind == 'gs_unknown_map':
        g = [k for k in body if segs[k][0] == 'GS' and len(segs[k]) > 8]
        if not g:
            return False
        k = rng.choice(g)
        segs[k] = list(segs[k])
        if rng.random() < 0.5:
            segs[k][8] = rng.choice(['004010X999', '005010', '', '004010X098'])
        else:
            segs[k][1] = rng.choice(['ZZ', '', 'HC', 'FA'])
    elif kind == 'bht_tspc':
        g = [k for k in body if segs[k][0] == 'BHT' and len(segs[k]) > 2]
        if not g:
            return False
        k = rng.choice(g)
        segs[k] = list(segs[k])
        segs[k][2] = rng.choice(['11', '13', '99', ''])
    elif kind == 'inner_isa_short':
        g = [k for k in body if segs[k][0] == 'ISA']
        if not g:
            segs.insert(i, ['ISA', '00', 'X'])
        else:
            k = rng.choice(g)
            segs[k] = segs[k][:rng.randint(1, 15)]
    else:
        return False
    return True


def serialise(segs, seg_term='~', ele_term='*', sub_term=':', eol='\n'):
    out = []
    for s in segs:
        if s[0] == '\x00DOUBLE':
            out.append(seg_term)
            continue
        els = [e.replace(':', sub_term) if s[0] != 'ISA' else e for e in s[1:]]
        if s[0] == 'ISA' and len(els) == 16:
            els[15] = sub_term
        out.append((s[0] + ele_term + ele_term.join(els) if els else s[0]) + seg_term + eol)
    return ''.join(out)


def text_mutate(rng, text, kind):
    n = len(text)
    if n < 110:
        return text, False
    if kind == 'trunc_char':
        return text[:rng.randint(0, n - 1)], True
    if kind == 'trunc_seg':
        idx = [i for i, c in enumerate(text) if c == text[105]]
        if not idx:
            return text, False
        return text[:rng.choice(idx) + 1], True
    if kind == 'byte_flip':
        k = rng.randint(0, n - 1)
        c = chr((ord(text[k]) ^ (1 << rng.randint(0, 6))) & 0x7f)
        return text[:k] + c + text[k + 1:], c != text[k]
    if kind == 'non_ascii':
        # a character outside ASCII in the data (a path source is opened as ASCII text)
        k = rng.randint(106, n - 1)
        if text[k] in (text[3], text[104], text[105], '\r', '\n'):
            return text, False
        return text[:k] + rng.choice(['\xc9', '\xe9', '\xa0', '\xff']) + text[k + 1:], True
    if kind == 'alnum_delim':
        # a letter or digit as element separator or segment terminator (one of I, S, A makes the header unreadable as "ISA")
        old, new = rng.choice([(text[3], rng.choice('SAI7Z')), (text[105], rng.choice('SAZ'))])
        if old in '\r\n' or new in text:
            if new not in 'ISA':
                return text, False
        return text.replace(old, new), True
    if kind == 'gs_broken_map':
        # a transaction type whose registered map cannot be loaded (841: undefined data elements)
        j = text.find(text[105] + 'GS' + text[3])
        if j < 0 or text[84:89] != '00401':
            return text, False
        e = text.find(text[105], j + 1)
        els = text[j + 1:e].split(text[3])
        if len(els) < 9:
            return text, False
        els[1], els[8] = 'SP', '004010XXXC'
        return text[:j + 1] + text[3].join(els) + text[e:], True
    if kind == 'char_delete':
        k = rng.randint(106, n - 1)
        if rng.random() < 0.5:
            # prefer a later ISA segment: its fields are fixed width but only the element count is checked by the reader
            j = text.find(text[105] + 'ISA' + text[3], 106)
            j2 = text.find('\nISA' + text[3], 106)
            j = j if j >= 0 else j2
            if j >= 0:
                k = rng.randint(j + 5, min(n - 1, j + 105))
        if text[k] in (text[3], text[105]):
            return text, False
        return text[:k] + text[k + 1:], True
    if kind == 'delim_in_data':
        k = rng.randint(106, n - 1)
        return text[:k] + rng.choice([text[3], text[104], text[105], '^']) + text[k:], True
    if kind == 'isa_damage':
        k = rng.randint(0, 105)
        r = rng.random()
        if r < 0.4:
            return text[:k] + text[k + 1:], True
        if r < 0.7:
            return text[:k] + 'Q' + text[k:], True
        return text[:k] + rng.choice(['*', '~', ' ', 'X']) + text[k + 1:], True
    if kind == 'isa_version':
        return text[:84] + rng.choice(['00400', '00200', '00501', '00401', '     ', '0050X']) + text[89:], True
    return text, False


# ------------------------------------------------------------------ generation

RAW = ['', 'ISA', 'ISA*', 'I', 'ISA*00*', 'hello world', '\n\n', 'ISA~', 'GS*HC*A*B~', '<xml/>', 'ISA' + '*' * 103, 'ISA' + ' ' * 200]


def generate(rng, tier, run, seed=0):
    r = rng.random()
    ents = [e for e in docsim.entries() if e['file'] not in docsim.EXCLUDED_MAPS]
    entry = ents[run % len(ents)]
    base_kind = 'doc'
    segs = None
    if r < 0.05:
        base_kind = 'raw'
        if rng.random() < 0.5:
            text = rng.choice(RAW)
        else:
            text = ''.join(rng.choice('ISA*~:\n ABC019') for _ in range(rng.choice([1, 3, 50, 106, 107, 300])))
    elif r < 0.25:
        base_kind = 'skeleton'
        icvn = rng.choice(['00401', '00501'])
        segs = envgen.gen_skeleton(rng, icvn, max_isa=2, max_gs=2, max_st=2, max_body=6)
    else:
        try:
            g = docsim.draw_doc(rng, entry, size_cap=rng.choice([20, 40, 80, 150]))
            segs = [s.flat() for s in g.segs]
        except docgen.Unsupported:
            base_kind = 'skeleton'
            segs = envgen.gen_skeleton(rng, entry['icvn'], max_isa=1, max_gs=2, max_st=2, max_body=6)
    fired = []
    if segs is not None:
        nf = rng.choice([0, 1, 1, 1, 2, 2, 3, 4])
        text_kinds = []
        for _ in range(nf):
            if rng.random() < 0.3:
                k = rng.choice(_c04.FAULTS)
                try:
                    if _c04.apply_fault(segs, k, rng):
                        fired.append('env:' + k)
                except (ValueError, IndexError):
                    pass
                continue
            k = rng.choice(STRUCT)
            if k in ('trunc_char', 'trunc_seg', 'byte_flip', 'delim_in_data', 'isa_damage', 'isa_version', 'char_delete', 'non_ascii',
                     'alnum_delim', 'gs_broken_map'):
                text_kinds.append(k)
            elif mutate(rng, segs, k):
                fired.append(k)
        seg_term = rng.choice(['~', '~', '~', '\n', '!'])
        text = serialise(segs, seg_term, rng.choice(['*', '*', '|']), rng.choice([':', ':', '>']),
                         rng.choice(['', '\n', '\r\n']) if seg_term != '\n' else '')
        for k in text_kinds:
            text, ok = text_mutate(rng, text, k)
            if ok:
                fired.append(k)
    cfg = docsim.draw_config(rng, text, allow_path=True)
    cfg['sinks'] = [s for s, b in zip(('ack', 'html', 'xml'), [rng.random() < 0.5 for _ in range(3)]) if b]
    eof = None
    if rng.random() < 0.25 and len(text) > 0:
        eof = rng.randint(0, len(text))
        fired.append('eof')
    entry_point = rng.choice(ENTRY)
    loop_id = None
    if entry_point == 'context_loop':
        m = mapspec.load_map(entry['file'])
        loops = [n.id for n in mapspec.walk(m) if n.kind == 'loop']
        loop_id = rng.choice(loops + ['ISA_LOOP', 'GS_LOOP', 'ST_LOOP', 'NOPE'])
    case = {'text': text, 'faults': fired, 'cfg': cfg, 'eof': eof, 'entry_point': entry_point, 'loop_id': loop_id,
            'charset': rng.choice(['E', 'B']), 'base': base_kind, 'map': entry['file']}
    if (len(text) <= 4096 and run % 50 == 7) if tier == 'thorough' else (len(text) <= 1200 and run % 500 == 7):
        # crash point enumeration: end of input at *every* character offset of a small document
        case['eof_sweep'] = True
        case['eof'] = None
        case['cfg']['kind'] = 'sim'
    return case


# ------------------------------------------------------------------ oracle

def isa_ok(text):
    try:
        T.header(text)
        return True
    except T.NotX12:
        return False


def later_isa_bad(text):
    """is there a later ISA segment that does not have 16 elements?"""
    try:
        tk = T.tokenise(text, blank_only='keep')
    except T.NotX12:
        return False
    return any(s.id == 'ISA' and len(s.elements) != 16 for s in tk.segs)


def map_missing(text):
    """does some GS (or 278 BHT) select no map in the index?"""
    try:
        tk = T.tokenise(text, blank_only='keep')
    except T.NotX12:
        return False
    icvn = None
    fic = vriic = None

    def val(s, e):
        # the value as a whole, components joined (what a reader of the element sees)
        if e > len(s.elements):
            return None
        c = list(s.elements[e - 1])
        while len(c) > 1 and c[-1] == '':
            c.pop()
        return tk.subele_term.join(c)
    for s in tk.segs:
        if s.id == 'ISA':
            icvn = val(s, 12)
        elif s.id == 'GS':
            fic, vriic = val(s, 1), val(s, 8)
            if mapspec.lookup(icvn, vriic, fic) is None:
                return True
        elif s.id == 'BHT' and vriic in ('004010X094', '004010X094A1'):
            t = val(s, 2)
            if t is None or mapspec.lookup(icvn, vriic, fic, t) is None:
                return True
    return False


def classify(exc, text):
    """-> None if the exception is a documented refusal, else a signature fragment"""
    import pyx12.errors
    if isinstance(exc, pyx12.errors.X12Error):
        if (not isa_ok(text)) or later_isa_bad(text):
            return None
        return 'X12Error-without-precondition'
    if isinstance(exc, pyx12.errors.EngineError) and str(exc).startswith('Map not found'):
        if map_missing(text):
            return None
        return 'MapNotFound-without-precondition'
    return observe.exc_sig(exc)


def run_reader(text, cfg, log):
    import pyx12.x12file
    with seams.bufsize(cfg.get('bufsize', 8192)):
        src = pyx12.x12file.X12Reader(seams.SimSource(text, cfg.get('plan'), log=log))
        n = 0
        for seg in src:
            src.pop_errors()
            n += 1
        src.cleanup()
        src.pop_errors()
    return n


def run_context(text, cfg, loop_id, charset, log):
    import pyx12.x12context
    import pyx12.params
    import pyx12.error_handler
    param = pyx12.params.params()
    param.set('charset', charset)
    with seams.bufsize(cfg.get('bufsize', 8192)):
        errh = pyx12.error_handler.errh_null()
        rd = pyx12.x12context.X12ContextReader(param, errh, seams.SimSource(text, cfg.get('plan'), log=log))
        n = 0
        for node in rd.iter_segments(loop_id):
            for s in node.iterate_segments():
                n += 1
    return n


def execute(case):
    if case.get('eof_sweep'):
        total = core.Outcome()
        n = len(case['text'])
        h = []
        offsets = list(range(n + 1))
        if n > 400:
            # a bounded sweep (one run must stay far below the wall cap): every offset next to a segment terminator, the
            # whole ISA, and an even sample of the rest
            t = case['text']
            term = t[105] if n > 105 else '~'
            near = set(range(0, min(n, 110)))
            for k, ch in enumerate(t):
                if ch == term:
                    near.update((k - 1, k, k + 1, k + 2))
            stride = max(1, n // 250)
            offsets = sorted(x for x in (near | set(range(0, n + 1, stride)) | {n}) if 0 <= x <= n)
            if len(offsets) > 700:
                offsets = offsets[::(len(offsets) // 700) + 1] + [n]
        for eof in offsets:
            o = execute(dict(case, eof_sweep=False, eof=eof))
            h.append(o.digest)
            total.cover |= o.cover
            for k, v in o.faults.items():
                total.faults[k] = total.faults.get(k, 0) + v
            total.steps += o.steps
            if o.violations:
                v = o.violations[0]
                total.violate(v.cls, v.sig, 'EOF at offset %d of %d: %s' % (eof, n, v.msg))
                break
        total.fault('eof_sweep_offsets', len(h))
        total.info['evals'] = len(h)
        total.info['knobs'] = {'entry': case['entry_point'], 'sweep': True}
        total.digest = core.digest(h)
        return total
    seams.import_pyx12()
    import pyx12.errors
    out = core.Outcome()
    log = core.EventLog()
    text = case['text'] if case['eof'] is None else case['text'][:case['eof']]
    ep = case['entry_point']
    outcome = 'ok'
    exc = None
    try:
        if ep == 'validate':
            cfg = case['cfg']
            if cfg['kind'] == 'path' and not text.isascii():
                cfg = dict(cfg, kind='sim')
            r = docsim.run(text, cfg, case['charset'], log)
            out.sim_time = r.clock.span()
            if r.exc is not None:
                exc = r.exc
            else:
                outcome = str(r.verdict)
                if r.verdict not in (True, False):
                    out.violate('verdict', 'non-boolean-verdict', 'x12n_document returned %r' % (r.verdict,))
        elif ep == 'reader':
            run_reader(text, case['cfg'], log)
        else:
            run_context(text, case['cfg'], case['loop_id'], case['charset'], log)
    except seams.SimStall as e:
        out.violate('stall', 'stall|' + ep, '%s keeps reading without progress: %s' % (ep, e))
        outcome = 'stall'
    except Exception as e:
        exc = e
    if exc is not None:
        if isinstance(exc, seams.SimStall):
            out.violate('stall', 'stall|' + ep, '%s keeps reading without progress' % ep)
            outcome = 'stall'
        else:
            sig = classify(exc, text)
            if sig is None:
                outcome = 'refused:' + type(exc).__name__
            else:
                outcome = 'exception'
                out.violate('exception', 'exception|%s|%s' % (ep if ep != 'context_loop' else 'context', sig),
                            '%s: undocumented %s: %s (faults %s, sinks %s)' % (ep, sig, str(exc)[:200], case['faults'],
                                                                              case['cfg']['sinks']))
    log.ev('outcome', ep, outcome)
    for f in case['faults']:
        out.fault(f)
    out.fault('entry:' + ep)
    out.cover.add('%s|%s|%s|%s' % (ep, '+'.join(case['cfg']['sinks']) if ep == 'validate' else '-',
                                   ','.join(sorted(set(case['faults']))), outcome))
    out.info['knobs'] = {'entry': ep, 'sinks': '+'.join(case['cfg']['sinks']) or 'none', 'charset': case['charset'], 'base': case['base']}
    out.steps = log.seq
    out.digest = log.digest()
    return out


def shrink(case, still):
    best = dict(case)
    if best.get('eof_sweep'):
        for eof in range(len(best['text']) + 1):
            c = dict(best, eof_sweep=False, eof=eof)
            if still(c):
                best = c
                break
        else:
            return case
    text = best['text'] if best['eof'] is None else best['text'][:best['eof']]
    best = dict(best, text=text, eof=None)
    if not still(best):
        best = dict(case)
        text = best['text']
    if len(text) > 106 and text.startswith('ISA'):
        seg_term = text[105]
        head, rest = text[:106], text[106:]
        pieces = rest.split(seg_term)
        tail, items = pieces[-1], pieces[:-1]

        def t(sub):
            return still(dict(best, text=head + ''.join(p + seg_term for p in sub) + tail))
        items = core.ddmin(items, t, 250)
        if still(dict(best, text=head + ''.join(p + seg_term for p in items))):
            tail = ''
        best = dict(best, text=head + ''.join(p + seg_term for p in items) + tail)
    cfg = dict(best['cfg'])
    for k, v in (('plan', {'kind': 'exact'}), ('kind', 'sim'), ('bufsize', 8192), ('map_path', None)):
        c = dict(best, cfg=dict(cfg, **{k: v}))
        if still(c):
            best, cfg = c, c['cfg']
    for s in list(cfg['sinks']):
        c = dict(best, cfg=dict(cfg, sinks=[x for x in cfg['sinks'] if x != s]))
        if still(c):
            best, cfg = c, c['cfg']
    return best


def sample_view(case, out):
    return {'entry_point': case['entry_point'], 'loop_id': case['loop_id'], 'faults': case['faults'], 'sinks': case['cfg']['sinks'],
            'charset': case['charset'], 'eof': case['eof'], 'text_len': len(case['text']), 'text_head': case['text'][:200]}
