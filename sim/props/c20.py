"""C20 — the normaliser preserves content, is idempotent and repairs counts.

pyx12.scripts.x12norm.main() is run in-process on real files in a scratch
directory (the path branch of X12Reader, real open()), with sys.argv /
sys.stdout owned by the harness.  Every option combination; count faults for
the -f arm.  Oracle: reference tokeniser + envelope recount.
"""
import io
import os
import sys
import tempfile

import core
import seams
import envgen
from refmodel import tokenise as T
from refmodel import envelope as E
from props import c01 as _c01
from props import c04 as _c04

ID = 'C20'
LEVEL = 'exploration'
RULE = ('Readable interchanges (syntactic texts of the C01 generator restricted to text-mode-safe layouts, and envelope '
        'skeletons with 0..3 count faults: SE/GE/IEA count off/non-numeric/empty, HL01 gap/repeat) written to scratch files; '
        'x12norm.main() invoked with every option vector over {-e, -f} x {stdout, -o file, -i} and 1..3 input files; output '
        're-normalised for idempotence. One evaluation = one invocation. distinct_nontrivial = distinct (option vector, '
        'destination, number of files, fault kinds, document features) keys.')
ASSUMPTIONS = [
    'input files are opened by x12norm in text mode, so the reference is the tokenisation of the newline-folded text',
    '-o is combined with a single input file only (with several inputs the option is ambiguous and the property does not define it)',
    'with -f only count/HL01 defects are injected; HL02 values stay consistent with the true numbering',
    'in-place rewriting is not checked for crash consistency (not claimed by the property)',
]
COMPONENTS = {
    'real': ['pyx12.scripts.x12norm.main', 'pyx12.x12file.X12Reader (path branch)', 'real files under a scratch directory',
             'argparse, tempfile.TemporaryFile'],
    'simulated': ['sys.argv / sys.stdout owned by the harness', 'count faults in the stored document'],
    'models': ['refmodel.tokenise', 'refmodel.envelope.recount'],
}
COUNT_FAULTS = ['count_off', 'count_nonnum', 'count_empty', 'hl01_gap', 'hl01_repeat']


def tier_config(tier):
    if tier == 'thorough':
        return {'runs': 60000, 'wall': 780, 'det_probe': 8}
    return {'runs': 10000, 'wall': 150, 'det_probe': 4}


def gen_doc(rng, want_fix):
    if rng.random() < 0.4 and not want_fix:
        text, layout, feats = _c01.gen_text(rng, 8192, False, non_ascii=True)
        return {'text': text, 'faults': [], 'feats': ['syntactic'] + feats}
    icvn = rng.choice(['00401', '00501'])
    segs = envgen.gen_skeleton(rng, icvn, max_isa=2, max_gs=2, max_st=3, max_body=8)
    fired = []
    if want_fix or rng.random() < 0.3:
        for _ in range(rng.choice([0, 1, 1, 2, 3])):
            k = rng.choice(COUNT_FAULTS)
            if _c04.apply_fault(segs, k, rng):
                fired.append(k)
    seg_term = rng.choice(['~', '~', '\n', '!', '\r'])
    eol = rng.choice(['', '\n', '\r\n', '\r']) if seg_term not in '\r\n' else rng.choice(['', '', '\n'] if seg_term == '\r' else [''])
    text = envgen.serialise(segs, seg_term, rng.choice(['*', '|']), rng.choice([':', '>']), eol)
    return {'text': text, 'faults': fired, 'feats': ['skeleton', 'eol:' + repr(eol)]}


def generate(rng, tier, run, seed=0):
    fix = rng.random() < 0.5
    nfiles = rng.choice([1, 1, 1, 2, 3])
    dest = rng.choice(['stdout', 'stdout', 'outfile', 'inplace'])
    docs = [gen_doc(rng, fix) for _ in range(nfiles)]
    case = {'docs': docs, 'eol': rng.random() < 0.5, 'fix': fix, 'dest': dest, 'odd_names': rng.random() < 0.1}
    # environment knob: the encoding of the stdout device (locale / PYTHONIOENCODING); None = a plain text sink
    case['stdout_enc'] = rng.choice([None, None, 'utf-8', 'utf-8', 'ascii', 'latin-1', 'cp1252'])
    return case


# ------------------------------------------------------------------ execution

DECOY = ('ISA*00*          *00*          *ZZ*DECOY          *ZZ*DECOY          *040102*1230*U*00401*000000077*0*P*:~'
         'GS*HC*D*D*20040102*1230*77*X*004010X098A1~GE*0*77~IEA*1*000000077~\n')


def run_norm(argv, enc=None):
    """run x12norm.main() in-process -> stdout text.  enc: encoding of the simulated stdout device (a TextIOWrapper over
    a byte sink, as the real sys.stdout is); what the device received is read back one character per byte, the way the
    reader reads a file.  None: a plain text sink without a byte layer."""
    import logging
    import pyx12.scripts.x12norm as xn
    old_argv, old_out = sys.argv, sys.stdout
    root = logging.getLogger()
    keep = list(root.handlers)
    lvl = root.level
    raw = None
    if enc is None:
        buf = io.StringIO()
    else:
        raw = io.BytesIO()
        buf = io.TextIOWrapper(raw, encoding=enc, newline='', write_through=True)
    sys.argv = ['x12norm'] + argv
    sys.stdout = buf
    try:
        xn.main()
        if raw is not None:
            buf.flush()
            return raw.getvalue().decode('latin-1')
    finally:
        sys.argv, sys.stdout = old_argv, old_out
        seams.drop_root_handlers(keep)
        root.setLevel(lvl)
    return buf.getvalue()


def flat(tk):
    return [[s.id] + [tk.subele_term.join(c) if s.id != 'ISA' else c[0] for c in s.trimmed()] for s in tk.segs]


def expected_text(tk, eol, idonly_sep=False):
    e = '\n' if eol else ''
    return ''.join(s.format(tk.seg_term, tk.ele_term, tk.subele_term, idonly_sep) + e for s in tk.segs) + ('' if eol else '\n')


def check_doc(doc, produced, case, out, tag):
    src = doc['text']        # the input file is read as it is (no newline folding)
    try:
        ref = T.tokenise(src)
    except T.NotX12:
        return
    if not case['fix'] or not any(s.id in ('SE', 'GE', 'IEA', 'HL') for s in ref.segs):
        want = expected_text(ref, case['eol'])
        if produced != want and produced == expected_text(ref, case['eol'], idonly_sep=True):
            out.violate('content', 'content-mismatch|id-only-separator', '%s: a segment that is only its identifier is written with an element separator '
                        'the input does not have (XX~ -> XX*~)' % tag)
            return
        if produced != want:
            j = next((k for k in range(min(len(produced), len(want))) if produced[k] != want[k]), min(len(produced), len(want)))
            cls = 'empty-output' if produced == '' else 'content'
            out.violate('content', 'content-mismatch|%s|%s' % (case['dest'], cls),
                        '%s: normalised text differs from the input\'s normal form at offset %d: %r vs %r' % (
                            tag, j, produced[max(0, j - 25):j + 25], want[max(0, j - 25):j + 25]))
        return
    # -f arm: same segments except repaired count fields; no count defect left
    try:
        got = T.tokenise(produced)
    except T.NotX12 as e:
        out.violate('content', 'content-mismatch|%s|%s' % (case['dest'], 'empty-output' if produced == '' else 'unreadable'),
                    '%s: output is not a readable interchange (%s): %r' % (tag, e, produced[:60]))
        return
    if got.delims() != ref.delims():
        out.violate('delims', 'delims-changed', '%s: delimiters changed %r -> %r' % (tag, ref.delims(), got.delims()))
        return
    a, b = flat(ref), flat(got)
    rc_in = E.recount(a)
    repairable = set()
    for (i, lvl, code) in rc_in.errors:
        if (lvl, code) in (('isa', '021'), ('gs', '5'), ('st', '4'), ('seg', 'HL1')):
            repairable.add(i)
    if len(a) != len(b):
        out.violate('content', 'fix-segment-count', '%s: %d segments in, %d out' % (tag, len(a), len(b)))
        return
    for i, (x, y) in enumerate(zip(a, b)):
        if x == y:
            continue
        ok = i in repairable and x[0] == y[0] and x[2:] == y[2:]
        if not ok:
            out.violate('content', 'fix-altered-other-value|%s' % x[0],
                        '%s: segment #%d changed from %r to %r although only its count field may be repaired' % (tag, i + 1, x, y))
            return
    rc_out = E.recount(b)
    left = sorted(set((lvl, code) for (_, lvl, code) in rc_out.errors
                      if (lvl, code) in (('isa', '021'), ('gs', '5'), ('st', '4'), ('seg', 'HL1'))))
    if left:
        out.violate('fix', 'fix-left-defect|%s' % ','.join('%s%s' % e for e in left),
                    '%s: after -f the recount still finds %r (injected %s)' % (tag, left, doc['faults']))
    # layout
    want_layout = expected_text(got, case['eol'])
    if produced != want_layout:
        out.violate('layout', 'layout|%s' % case['dest'], '%s: output layout is not one-per-line/plain as requested' % tag)


def execute(case):
    seams.import_pyx12()
    out = core.Outcome()
    log = core.EventLog()
    base = os.environ.get('VERIF_SCRATCH_RUN') or tempfile.gettempdir()
    d = tempfile.mkdtemp(prefix='c20-', dir=base)
    evals = 0
    try:
        paths = []
        for i, doc in enumerate(case['docs']):
            # (a file name may hold glob characters; it still names that file)
            p = os.path.join(d, ('in%d.x12' if not case.get('odd_names') else 'claim[%d].x12') % i)
            with open(p, 'w', encoding='latin-1', newline='') as f:
                f.write(doc['text'])
            paths.append(p)
            if case.get('odd_names'):
                # a neighbour that the name, read as a glob pattern, would match: it is not an input and must stay untouched
                with open(os.path.join(d, 'claim%d.x12' % i), 'w', encoding='latin-1', newline='') as f:
                    f.write(DECOY)
            for k in doc['faults']:
                out.fault(k)
        argv = []
        if case['eol']:
            argv.append('-e')
        if case['fix']:
            argv.append('-f')
        outp = os.path.join(d, 'out.x12')
        if case['dest'] == 'outfile':
            argv += ['-o', outp]
        elif case['dest'] == 'inplace':
            argv.append('-i')
        argv += paths
        log.ev('argv', [a if not a.startswith(d) else os.path.basename(a) for a in argv])
        enc = case.get('stdout_enc')
        if enc:
            out.fault('stdout-device:' + enc)
        if case['dest'] == 'outfile' and len(paths) > 1:
            out.fault('outfile-several-inputs')
        try:
            so = run_norm(argv, enc)
        except SystemExit as e:
            out.violate('exit', 'systemexit', 'x12norm exited: %r' % (e.code,))
            return finish(out, log, evals)
        except Exception as e:
            out.violate('exception', 'exception|' + _c01.exc_sig(e), 'x12norm raised %s: %s' % (_c01.exc_sig(e), e))
            return finish(out, log, evals)
        evals += 1
        # collect what each destination received, per document
        produced = []
        if case['dest'] == 'stdout':
            # outputs are concatenated in order; split by re-running each file alone (also an equality check)
            if len(paths) == 1:
                produced = [so]
            else:
                singles = []
                for p in paths:
                    a2 = [x for x in argv if x not in paths] + [p]
                    singles.append(run_norm(a2, enc))
                    evals += 1
                if ''.join(singles) != so:
                    out.violate('concat', 'multi-file-stdout', 'stdout of several inputs is not the concatenation of the single runs')
                produced = singles
        elif case['dest'] == 'outfile':
            if so != '':
                out.violate('dest', 'stdout-with-o', 'text on stdout although -o was given')
            whole = open(outp, encoding='latin-1', newline='').read() if os.path.exists(outp) else ''
            if len(paths) == 1:
                produced = [whole]
            else:
                # several inputs, one output file: it receives what stdout would have received, input after input
                singles = []
                for p in paths:
                    singles.append(run_norm([x for x in argv if x not in paths and x not in ('-o', outp)] + [p]))
                    evals += 1
                if ''.join(singles) != whole:
                    out.violate('concat', 'multi-file-outfile', '-o with %d inputs: the file holds %d characters, the inputs normalise to %s' % (
                        len(paths), len(whole), [len(x) for x in singles]))
                    return finish(out, log, evals)
                produced = singles
        else:
            if so != '':
                out.violate('dest', 'stdout-with-i', 'text on stdout although -i was given')
            produced = [open(p, encoding='latin-1', newline='').read() for p in paths]
        if case.get('odd_names'):
            out.fault('glob-characters-in-name')
            for i in range(len(paths)):
                if open(os.path.join(d, 'claim%d.x12' % i), encoding='latin-1', newline='').read() != DECOY:
                    out.violate('dest', 'neighbour-touched', 'a file that was not named on the command line was rewritten')
        for i, doc in enumerate(case['docs']):
            n0 = len(out.violations)
            check_doc(doc, produced[i], case, out, 'file %d (%s)' % (i, ' '.join(argv[:-len(paths)]) or 'no options'))
            if len(out.violations) > n0:
                continue
            # idempotence: normalising the output again (same -e, no -f needed) changes nothing
            p2 = os.path.join(d, 'again%d.x12' % i)
            with open(p2, 'w', encoding='latin-1', newline='') as f:
                f.write(produced[i])
            if produced[i].startswith('ISA'):
                try:
                    again = run_norm((['-e'] if case['eol'] else []) + (['-f'] if case['fix'] else []) + [p2], enc)
                    evals += 1
                    if again != produced[i]:
                        out.violate('idempotence', 'not-idempotent', 'file %d: normalising the output again changes it' % i)
                except Exception as e:
                    out.violate('exception', 'exception-again|' + _c01.exc_sig(e), 're-normalising raised %s' % e)
            # the three destinations receive identical text (single input): compare with a stdout run
            if case['dest'] != 'stdout' and len(paths) == 1:
                p3 = os.path.join(d, 'cmp.x12')
                with open(p3, 'w', encoding='latin-1', newline='') as f:
                    f.write(doc['text'])
                ref_out = run_norm((['-e'] if case['eol'] else []) + (['-f'] if case['fix'] else []) + [p3])
                evals += 1
                if ref_out != produced[i]:
                    out.violate('dest', 'destination-differs|%s' % case['dest'],
                                'text written to %s differs from what stdout receives' % case['dest'])
            out.cover.add('%s|%s|%s|n=%d|%s|%s' % ('e' if case['eol'] else '-', 'f' if case['fix'] else '-', case['dest'],
                                                    len(paths), ','.join(sorted(set(doc['faults']))), ','.join(doc['feats'][:4])))
    finally:
        for fn in os.listdir(d):
            try:
                os.unlink(os.path.join(d, fn))
            except OSError:
                pass
        try:
            os.rmdir(d)
        except OSError:
            pass
    return finish(out, log, evals)


def finish(out, log, evals):
    out.info['evals'] = max(evals, 1)
    out.steps = log.seq
    out.digest = log.digest()
    return out


def shrink(case, still):
    best = case
    for doc in case['docs']:
        c = dict(best, docs=[doc])
        if still(c):
            best = c
            break
    doc = best['docs'][0]
    text = doc['text']
    try:
        seg_term = text[105]
        head, rest = text[:106], text[106:]
        pieces = rest.split(seg_term)
        tail, items = pieces[-1], pieces[:-1]

        def t(sub):
            return still(dict(best, docs=[dict(doc, text=head + ''.join(p + seg_term for p in sub) + tail)]))
        items = core.ddmin(items, t, 200)
        best = dict(best, docs=[dict(doc, text=head + ''.join(p + seg_term for p in items) + tail)])
    except Exception:
        pass
    for k, v in (('stdout_enc', None), ('eol', False), ('fix', False), ('dest', 'stdout')):
        c = dict(best, **{k: v})
        if still(c):
            best = c
    return best


def sample_view(case, out):
    return {'options': {'eol': case['eol'], 'fix': case['fix'], 'dest': case['dest']}, 'files': len(case['docs']),
            'doc0_head': case['docs'][0]['text'][:200], 'doc0_faults': case['docs'][0]['faults']}
