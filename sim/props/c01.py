"""C01 — tokenisation is lossless and independent of read chunking and source kind.

Workload: syntactic interchange texts (well-formed ISA header + arbitrary
segments).  Schedule/fault space: how the stream chunks its reads, what kind of
source object the caller passes, the refill-buffer size (buggified knob).
Oracle: refmodel.tokenise + normal-form law, evaluated after every yielded
segment and over the recorded run afterwards.
"""
import io
import os
import tempfile

import core
import seams
from refmodel import tokenise as T

ID = 'C01'
LEVEL = 'exploration'
RULE = ('Seeded syntactic interchange texts (ISA header of either version, any delimiter triple, 0..N segments with '
        'empty/trailing-empty elements, composites, leading blanks, doubled terminators, unterminated tails, lengths '
        'biased to the refill-buffer size) each read under several (source kind, chunk plan, buffer size) '
        'configurations; a case is counted once per configuration. distinct_nontrivial counts distinct state keys '
        '(source kind, chunk-plan class, buffer size, bucket of first-terminator offset modulo buffer, line layout, '
        'normalisation kinds present) over configurations that yielded at least two segments.')
ASSUMPTIONS = [
    'refmodel.tokenise (DESIGN A.1) is the specification of the segment stream',
    'file-backed sources opened in text mode: Python folds CR/CRLF to LF before pyx12 sees the text, so for those kinds '
    'the expectation is the tokenisation of the folded text',
    'leading blanks may be followed by a line break (fixed-width records, "SEG~   \\nNEXT"): both are dropped, with the leading-blank error; other whitespace (tabs, form feeds) is never placed there',
    'blank-only pieces may be skipped or yielded as empty segments; the property statement leaves it open',
    'no read errors are injected: the property quantifies over chunking, not over failing streams',
]
COMPONENTS = {
    'real': ['pyx12.rawx12file.RawX12File', 'pyx12.x12file.X12Reader', 'pyx12.segment.Segment/Composite/Element',
             'CPython io.TextIOWrapper/BufferedReader/StringIO', 'scratch-directory files opened by path'],
    'simulated': ['source device (SimSource / SimRawIO chunk plans)', 'refill buffer size knob'],
    'models': ['refmodel.tokenise'],
}

KINDS = ['sim', 'stringio', 'rawio', 'file_obj', 'file_raw', 'path']
BUFS = [8192, 8192, 4096, 1024, 107, 64, 16, 1]


def tier_config(tier):
    if tier == 'thorough':
        return {'runs': 60000, 'wall': 780, 'det_probe': 12}
    return {'runs': 10000, 'wall': 150, 'det_probe': 6}


# ------------------------------------------------------------------ generation

SEG_TERMS = ['~', '~', '~', '\n', '!', '+', '\x1d', '|', "'", '\r', '\x1c']
ELE_TERMS = ['*', '*', '*', '|', '^', '\t', ',', '>', '\x1f']
SUB_TERMS = [':', ':', '\\', '>', '<', '^', '\x1e', '@']
ALPHA = 'ABCDEFGHIJKLMNOPQRSTUVWXYZ0123456789'
PRINTABLE = ''.join(chr(c) for c in range(33, 127))
ENVELOPE_IDS = ('ISA', 'IEA', 'GS', 'GE', 'ST', 'SE', 'HL', 'LX', 'CLM')


def gen_isa(rng, icvn, seg_term, ele_term, sub_term, rep, ctl):
    f = ['00', ' ' * 10, '00', ' ' * 10, 'ZZ', 'SENDER'.ljust(15), 'ZZ', 'RECEIVER'.ljust(15),
         '040102', '1230', rep if icvn == '00501' else 'U', icvn, '%09d' % ctl, '0', 'P', sub_term]
    if rng.random() < 0.3:
        # the ISA is never split at the component separator: put it (and the repetition character) inside ISA fields
        for k in rng.sample([1, 3, 5, 7], rng.choice([1, 2])):
            w = len(f[k])
            v = ''.join(rng.choice('AB9 ' + sub_term + (rep if rep not in (seg_term, ele_term) else '')) for _ in range(w))
            if rng.random() < 0.4:
                v = v[:-1] + sub_term
            f[k] = v
    return 'ISA' + ele_term + ele_term.join(f) + seg_term


def gen_value(rng, alphabet, maxlen, allow_ws):
    n = rng.choice([0, 1, 1, 2, 3, 5, 8, 13, rng.randint(0, maxlen)])
    n = min(n, maxlen)
    v = ''.join(rng.choice(alphabet) for _ in range(n))
    if v and rng.random() < 0.15:
        i = rng.randrange(len(v) + 1)
        v = v[:i] + rng.choice([' ', '  ', '\n', '\r\n', '\r'] if allow_ws else [' ', '  ']) + v[i:]
    return v


def gen_text(rng, B, file_safe, non_ascii=False):
    icvn = rng.choice(['00401', '00501'])
    while True:
        seg_term = rng.choice(SEG_TERMS)
        ele_term = rng.choice(ELE_TERMS)
        sub_term = rng.choice(SUB_TERMS)
        rep = rng.choice(['^', '^', '~', '!', '*', ':', '`'])
        ds = [seg_term, ele_term, sub_term] + ([rep] if icvn == '00501' else [])
        if len(set(ds)) != len(ds):
            continue
        if file_safe and (seg_term == '\r'):
            continue
        break
    # data alphabet: everything printable minus the run's delimiters
    alphabet = ''.join(c for c in PRINTABLE if c not in (seg_term, ele_term, sub_term))
    if non_ascii and rng.random() < 0.2:
        alphabet += '\xc9\xe9\xa6\xff\x80\x85\x92\x81\x9d'       # bytes outside ASCII (C1 controls too: code pages disagree there) in the data of a file named by path
    allow_ws = not file_safe
    layout = rng.choice(['none', 'none', 'lf', 'crlf', 'cr', 'mixed', 'several'])
    if seg_term in '\r\n' and layout != 'none' and rng.random() < 0.7:
        layout = 'none'

    def brk():
        if layout == 'none':
            return ''
        if layout == 'lf':
            return '\n'
        if layout == 'crlf':
            return '\r\n'
        if layout == 'cr':
            return '\r'
        if layout == 'mixed':
            return rng.choice(['', '\n', '\r\n', '\r'])
        return rng.choice(['\n\n', '\r\n\r\n', '\n\r', '\r\r\n'])

    parts = [gen_isa(rng, icvn, seg_term, ele_term, sub_term, rep, 1), brk()]
    feats = set()
    nseg = rng.choice([0, 1, 2, 3, 5, 8, 12, 20, rng.randint(0, 60), rng.randint(0, 400) if rng.random() < 0.1 else 4])
    long_bias = rng.random() < 0.35
    for i in range(nseg):
        r = rng.random()
        if r < 0.04:
            parts.append(seg_term)          # doubled terminator: empty piece
            feats.add('empty-piece')
            parts.append(brk())
            continue
        if r < 0.06:
            parts.append(rng.choice([' ', '   ']) + seg_term)   # blank-only piece
            feats.add('blank-only')
            parts.append(brk())
            continue
        if r < 0.08:
            ctl = i + 2
            parts.append(gen_isa(rng, icvn, seg_term, ele_term, sub_term, rep, ctl))
            feats.add('inner-isa')
            parts.append(brk())
            continue
        sid = rng.choice(ALPHA[:26]) + ''.join(rng.choice(ALPHA) for _ in range(rng.choice([1, 2, 2])))
        if sid in ENVELOPE_IDS:
            sid = 'ZZ' + sid[-1]
        if rng.random() < 0.02:
            sid = rng.choice(['ab', 'A', 'ABCD', '1A', 'N-1'])
            feats.add('odd-id')
        nele = rng.choice([0, 1, 2, 3, 4, 6, 9, rng.randint(0, 20)])
        els = []
        for _ in range(nele):
            if rng.random() < 0.2:
                nc = rng.choice([2, 2, 3, 4, 6])
                comps = [gen_value(rng, alphabet, 12, allow_ws) for _ in range(nc)]
                if rng.random() < 0.3:
                    comps[-1] = ''
                    feats.add('trailing-empty-comp')
                els.append(sub_term.join(comps))
                feats.add('composite')
            else:
                els.append(gen_value(rng, alphabet, 30, allow_ws))
        if els and rng.random() < 0.2:
            k = rng.randint(1, min(3, len(els)))
            for j in range(k):
                els[-1 - j] = ''
            feats.add('trailing-empty-ele')
        piece = sid + ''.join(ele_term + e for e in els)
        if nele == 0:
            feats.add('element-less')
        if long_bias and rng.random() < 0.3:
            # bias the segment length to the neighbourhood of k*B and to > B, > 2B
            target = rng.choice([B, B, 2 * B, 3 * B]) + rng.randint(-3, 3)
            target = min(target, 20000)
            if target > len(piece) + 2:
                pad = ''.join(rng.choice(ALPHA) for _ in range(target - len(piece) - 1))
                piece = piece + ele_term + pad
                feats.add('long-seg')
        if rng.random() < 0.06:
            piece = rng.choice([' ', '  ', '     ']) + piece
            feats.add('leading-blank')
        elif rng.random() < 0.03 and seg_term not in '\r\n':
            # records padded to a fixed width: terminator, blanks, then the line break
            piece = rng.choice([' \n', '   \r\n', ' \n ', '  \r']) + piece
            feats.add('blank-then-newline')
        parts.append(piece + seg_term)
        parts.append(brk())
    if rng.random() < 0.15:
        parts.append(rng.choice(['XX' + ele_term + 'TAIL', '\n', ' ', 'IEA' + ele_term + '1']))
        feats.add('unterminated-tail')
    return ''.join(parts), layout, sorted(feats)


def gen_plan(rng, text, B, seg_term):
    r = rng.random()
    n = len(text)
    if r < 0.12:
        return {'kind': 'exact'}
    if r < 0.35:
        return {'kind': 'fixed', 'k': rng.choice([1, 2, 3, 7, 105, 106, 107, max(1, B - 1), B, B + 1])}
    if r < 0.55:
        sizes = [rng.choice([1, 2, 5, 17, 64, 105, 106, 200, 1000, 9000]) for _ in range(rng.randint(1, 60))]
        return {'kind': 'sizes', 'sizes': sizes, 'tail': rng.choice(['exact', 1, 3, 50, 4096])}
    # adversarial cuts relative to terminators / line breaks / the ISA
    cuts = set()
    terms = [i for i, c in enumerate(text) if c == seg_term]
    mode = rng.choice(['before', 'after', 'both', 'crlf', 'isa', 'mix'])
    for t in terms:
        if rng.random() < 0.7:
            if mode in ('before', 'both', 'mix'):
                cuts.add(t)
            if mode in ('after', 'both', 'mix'):
                cuts.add(t + 1)
            if mode in ('crlf', 'mix') and t + 2 < n and text[t + 1] == '\r':
                cuts.add(t + 2)
    if mode in ('isa', 'mix'):
        for _ in range(rng.randint(1, 4)):
            cuts.add(rng.randint(1, 106))
    cuts = sorted(c for c in cuts if 0 < c < n)
    if len(cuts) > 3000:
        cuts = cuts[:3000]
    return {'kind': 'cuts', 'cuts': cuts, 'tail': rng.choice(['exact', 'exact', 1, 7, 4096])}


def generate(rng, tier, run, seed=0):
    B = rng.choice(BUFS)
    kinds = []
    nconf = rng.choice([2, 3, 3, 4])
    for _ in range(nconf):
        kinds.append(rng.choice(KINDS))
    file_safe = any(k in ('file_obj',) for k in kinds)      # only a stream the *caller* opened with newline translation needs folding-safe text
    text, layout, feats = gen_text(rng, B, file_safe, non_ascii=True)
    seg_term = text[105]
    configs = []
    for k in kinds:
        b = B if rng.random() < 0.7 else rng.choice(BUFS)
        plan = gen_plan(rng, text, b, seg_term) if k in ('sim', 'rawio') else {'kind': 'exact'}
        configs.append({'kind': k, 'plan': plan, 'bufsize': b})
    return {'text': text, 'configs': configs, 'layout': layout, 'feats': feats}


# ------------------------------------------------------------------ execution

def fold_newlines(text):
    return text.replace('\r\n', '\n').replace('\r', '\n')


def seg_values(seg):
    return [[e.get_value() for e in comp.elements] for comp in seg.elements]


def open_source(cfg, text, log, scratch):
    kind = cfg['kind']
    cleanup = None
    if kind == 'sim':
        return seams.SimSource(text, cfg['plan'], log=log), cleanup, text
    if kind == 'stringio':
        return io.StringIO(text), cleanup, text
    if kind == 'rawio':
        return seams.text_over_raw(text, cfg['plan'], log=log), cleanup, text
    fd, path = tempfile.mkstemp(prefix='c01-', suffix='.x12', dir=scratch)
    with os.fdopen(fd, 'w', encoding='latin-1', newline='') as f:
        f.write(text)
    if kind == 'file_obj':
        fobj = open(path, 'r', encoding='latin-1')
        return fobj, (fobj, path), fold_newlines(text)
    if kind == 'file_raw':
        fobj = open(path, 'r', encoding='latin-1', newline='')
        return fobj, (fobj, path), text
    if kind == 'path':
        return path, (None, path), text        # a file named by path is read as it is (no newline folding: a CR may be data or a delimiter)
    raise ValueError(kind)


def plan_class(plan):
    k = plan.get('kind')
    if k == 'fixed':
        v = plan['k']
        return 'fixed:%s' % (v if v in (1, 2, 3, 7, 105, 106, 107) else 'B±1')
    if k == 'cuts':
        return 'cuts:%s' % plan.get('tail')
    if k == 'sizes':
        return 'sizes:%s' % plan.get('tail')
    return k


def exc_sig(e):
    import traceback
    tb = traceback.extract_tb(e.__traceback__)
    where = '?'
    for fr in reversed(tb):
        if '/pyx12/' in fr.filename:
            where = '%s:%s' % (os.path.basename(fr.filename), fr.name)
            break
    return '%s@%s' % (type(e).__name__, where)


def read_one(text, cfg, out, log, scratch, tag):
    """Read `text` under one configuration; compare with the model after every
    yielded segment.  Returns the list of (id, values) yielded, or None."""
    import pyx12.x12file
    import pyx12.errors
    src_obj, cleanup, seen_text = open_source(cfg, text, log, scratch)
    got = []
    formatted = []
    try:
        try:
            ref = T.tokenise(seen_text)
        except T.NotX12:
            ref = None
        try:
            with seams.bufsize(cfg['bufsize']):
                try:
                    reader = pyx12.x12file.X12Reader(src_obj)
                except pyx12.errors.X12Error as e:
                    if ref is not None:
                        out.violate('refused-valid-isa', 'refused-valid-isa|%s' % cfg['kind'],
                                    '%s: well-formed ISA header refused: %s' % (tag, e), config=cfg)
                    return None
                if ref is None:
                    out.violate('accepted-bad-isa', 'accepted-bad-isa', '%s: malformed header accepted' % tag)
                    return None
                d = (reader.seg_term, reader.ele_term, reader.subele_term, reader.repetition_term)
                if d != ref.delims():
                    out.violate('delims', 'delims', '%s: delimiters %r, header declares %r' % (tag, d, ref.delims()))
                    return None
                # the model with blank-only pieces kept, to allow either treatment
                keep = T.tokenise(seen_text, blank_only='keep')
                exp = ref.segs
                # after_blank[k]: is the k-th expected segment directly preceded by a blank-only piece (whose error may be carried over)?
                after_blank = []
                prev_blank = False
                for ks in keep.segs:
                    if ks.id == '' and not ks.elements:
                        prev_blank = True
                        continue
                    after_blank.append(prev_blank)
                    prev_blank = False
                after_blank += [False] * (len(exp) - len(after_blank))
                i = 0
                carry_blank = False
                for seg in reader:
                    errs = reader.pop_errors()
                    sid = seg.get_seg_id()
                    vals = seg_values(seg)
                    log.ev('seg', sid, len(vals))
                    if sid is None and not vals:
                        # a blank-only piece yielded as an empty segment: allowed
                        out.probe('blank-only-yielded')
                        carry_blank = True
                        continue
                    if i >= len(exp):
                        out.violate('extra-segment', 'extra-segment',
                                    '%s: segment #%d %r not in the source' % (tag, i + 1, sid), config=cfg)
                        return None
                    e = exp[i]
                    if sid != e.id or vals != e.elements:
                        out.violate('value-mismatch', 'value-mismatch|%s' % mismatch_kind(sid, vals, e),
                                    '%s: segment #%d is %r %r, source has %r %r' % (tag, i + 1, sid, vals, e.id, e.elements),
                                    config=cfg, index=i)
                        return None
                    codes = set(x[1] for x in errs if x[0] == 'seg')
                    id_ok = bool(_valid_id(e.id))
                    if '1' in e.errors and '1' not in codes:
                        out.violate('leading-blank-unreported', 'leading-blank-unreported',
                                    '%s: segment #%d had leading blanks dropped without an error' % (tag, i + 1))
                    if '1' not in e.errors and id_ok and '1' in codes and not after_blank[i]:
                        out.violate('spurious-error', 'spurious-seg-error-1',
                                    '%s: segment #%d %r drew a leading-blank/identifier error it does not deserve' % (tag, i + 1, sid))
                    got.append((sid, vals))
                    formatted.append(seg.format(d[0], d[1], d[2]))
                    i += 1
                if i != len(exp):
                    nxt = exp[i]
                    out.violate('segments-lost', 'segments-lost|%s' % lost_kind(seen_text, ref, i, cfg),
                                '%s: stream ended after %d of %d segments; next in source is %r' % (
                                    tag, i, len(exp), (nxt.id, nxt.elements)[:2]), config=cfg, index=i)
                    return None
                if reader.cur_line != len(exp) and not carry_blank:
                    out.violate('line-count', 'line-count', '%s: cur_line=%d after %d segments' % (tag, reader.cur_line, len(exp)))
        except seams.SimStall as e:
            out.violate('stall', 'stall', '%s: reader keeps reading without progress: %s' % (tag, e), config=cfg)
            return None
        except Exception as e:
            out.violate('exception', 'exception|' + exc_sig(e), '%s: %s: %s' % (tag, exc_sig(e), e), config=cfg)
            return None
    finally:
        if cleanup:
            fobj, path = cleanup
            if fobj is not None:
                fobj.close()
            try:
                os.unlink(path)
            except OSError:
                pass
    # normal-form law: formatted text == model's normalisation, and reading it again gives equal segments
    text2 = ''.join(formatted)
    want = ref.normal_text()
    if text2 != want and text2 == ref.normal_text(idonly_sep=True):
        # the only difference: a segment that is nothing but its identifier gained an element separator (XX~ -> XX*~)
        out.violate('normalisation', 'normalisation|id-only-separator', '%s: a segment that is only its identifier is formatted with an element '
                    'separator the input does not have (e.g. %r)' % (tag, next((s.id + ref.ele_term + ref.seg_term for s in ref.segs if not s.trimmed()), '')), config=cfg)
        return got              # (the re-read law is moot for this configuration: the added separator is itself a reader error)
    if text2 != want:
        j = next((k for k in range(min(len(text2), len(want))) if text2[k] != want[k]), min(len(text2), len(want)))
        out.violate('normalisation', 'normalisation',
                    '%s: formatted output differs from the documented normalisation at offset %d: %r vs %r' % (
                        tag, j, text2[max(0, j - 20):j + 20], want[max(0, j - 20):j + 20]), config=cfg)
        return got
    try:
        r2 = pyx12.x12file.X12Reader(io.StringIO(text2))
        again = [(s.get_seg_id(), seg_values(s)) for s in r2]
    except Exception as e:
        out.violate('reread-exception', 'reread-exception|' + exc_sig(e), '%s: re-reading formatted output: %s' % (tag, e))
        return got
    a = [(s, _trim(v)) for s, v in again]
    b = [(s, _trim(v)) for s, v in got]
    if a != b:
        out.violate('roundtrip', 'roundtrip', '%s: formatted output re-read gives different segments' % tag, config=cfg)
    return got


def _trim(vals):
    els = []
    for comps in vals:
        c = list(comps)
        while len(c) > 1 and c[-1] == '':
            c.pop()
        els.append(c)
    while els and all(x == '' for x in els[-1]):
        els.pop()
    return els


def _valid_id(sid):
    import re
    return re.match(r'^[A-Z][A-Z0-9]{1,2}$', sid or '') is not None and '\n' not in sid


def _after_blank_only(keep, e):
    """is e directly preceded by a blank-only piece (whose error may be carried over)?"""
    prev = None
    for s in keep.segs:
        if s.raw is e.raw or (s.id == e.id and s.elements == e.elements and s.raw == e.raw):
            return prev is not None and prev.id == '' and not prev.elements
        prev = s
    return False


def mismatch_kind(sid, vals, e):
    if sid != e.id:
        return 'id'
    if len(vals) != len(e.elements):
        return 'element-count'
    for a, b in zip(vals, e.elements):
        if len(a) != len(b):
            return 'component-count'
    return 'value'


def lost_kind(text, ref, i, cfg):
    """Classify where the stream stopped, for a specific signature."""
    nxt = ref.segs[i]
    prev_end = 0
    # offset of the piece that was lost
    off = text.find(nxt.raw + ref.seg_term)
    before = text[max(0, off - 3):off]
    if before.endswith(ref.seg_term * 2) or (ref.seg_term in before[:-1] and before.endswith(ref.seg_term)
                                             and before.strip('\r\n' + ref.seg_term) == ''):
        return 'after-empty-piece'
    if len(nxt.raw) + 1 > cfg['bufsize']:
        return 'segment-longer-than-buffer'
    if cfg['plan'].get('kind') != 'exact':
        return 'short-read'
    return 'other'


def execute(case):
    seams.import_pyx12()
    out = core.Outcome()
    log = core.EventLog()
    text = case['text']
    scratch = os.environ.get('VERIF_SCRATCH_RUN') or tempfile.gettempdir()
    results = []
    evals = 0
    try:
        ref = T.tokenise(text)
    except T.NotX12:
        ref = None
    for n, cfg in enumerate(case['configs']):
        tag = 'config %d (%s, %s, B=%d)' % (n, cfg['kind'], plan_class(cfg['plan']), cfg['bufsize'])
        log.ev('config', cfg['kind'], plan_class(cfg['plan']), cfg['bufsize'])
        got = read_one(text, cfg, out, log, scratch, tag)
        evals += 1
        if got is not None:
            results.append((cfg, got))
            if len(got) >= 2 and ref is not None:
                t0 = text.find(ref.seg_term, 106)
                bucket = 'none' if t0 < 0 else str(min(3, (t0 - 106) % max(cfg['bufsize'], 1)))
                out.cover.add('|'.join([cfg['kind'], plan_class(cfg['plan']), str(cfg['bufsize']), bucket,
                                        case.get('layout', '?'), ','.join(case.get('feats', []))]))
        out.fault('chunk:' + plan_class(cfg['plan']).split(':')[0])
        out.fault('kind:' + cfg['kind'])
    # all source kinds and all chunk plans give the same segment list (when folding does not change the model)
    if ref is not None and len(results) > 1:
        try:
            same_model = [(s.id, s.elements) for s in T.tokenise(fold_newlines(text)).segs] == \
                [(s.id, s.elements) for s in ref.segs]
        except T.NotX12:
            same_model = False
        base_cfg, base = results[0]
        for cfg, got in results[1:]:
            folded = cfg['kind'] in ('file_obj',) or base_cfg['kind'] in ('file_obj',)
            if folded and not same_model:
                continue
            if got != base:
                out.violate('config-dependence', 'config-dependence|%s/%s' % (base_cfg['kind'], cfg['kind']),
                            'segment stream differs between %s and %s' % (base_cfg['kind'], cfg['kind']))
    for f in case.get('feats', []):
        out.probe(f)
    out.info['evals'] = evals
    out.info['knobs'] = {'bufsize': case['configs'][0]['bufsize'] if case['configs'] else 0}
    out.steps = log.seq
    out.digest = log.digest()
    return out


# ------------------------------------------------------------------ shrinking

def shrink(case, still):
    text = case['text']
    best = dict(case)
    # 1. one configuration
    for cfg in case['configs']:
        c = dict(best, configs=[cfg])
        if still(c):
            best = c
            break
    # 2. ddmin over pieces after the header
    try:
        seg_term = text[105]
        head, rest = text[:106], text[106:]
        pieces = rest.split(seg_term)
        tail = pieces[-1]
        items = pieces[:-1]

        def t(sub):
            return still(dict(best, text=head + ''.join(p + seg_term for p in sub) + tail))
        items = core.ddmin(items, t, 250)
        cand = head + ''.join(p + seg_term for p in items)
        if still(dict(best, text=cand)):
            tail = ''
        best = dict(best, text=head + ''.join(p + seg_term for p in items) + tail)
        # 3. shorten each piece
        for idx in range(len(items)):
            p = items[idx]
            for newp in (p[:3], p[:len(p) // 2], p.strip('\r\n')):
                if newp != p:
                    trial = items[:idx] + [newp] + items[idx + 1:]
                    c = dict(best, text=head + ''.join(q + seg_term for q in trial) + tail)
                    if still(c):
                        items = trial
                        best = c
                        break
    except Exception:
        pass
    # 4. simpler plan, shipped buffer size
    cfg = dict(best['configs'][0])
    for plan in ({'kind': 'exact'}, {'kind': 'fixed', 'k': 1}):
        c = dict(best, configs=[dict(cfg, plan=plan)])
        if still(c):
            best = c
            cfg = c['configs'][0]
            break
    c = dict(best, configs=[dict(cfg, bufsize=8192)])
    if still(c):
        best = c
    if best['configs'][0]['plan'].get('kind') == 'cuts':
        cuts = best['configs'][0]['plan']['cuts']

        def tc(sub):
            return still(dict(best, configs=[dict(best['configs'][0], plan=dict(best['configs'][0]['plan'], cuts=sub))]))
        if len(cuts) > 1:
            cuts = core.ddmin(cuts, tc, 120)
            best = dict(best, configs=[dict(best['configs'][0], plan=dict(best['configs'][0]['plan'], cuts=cuts))])
    return best


def sample_view(case, out):
    return {'text_head': case['text'][:160], 'text_len': len(case['text']), 'layout': case.get('layout'),
            'feats': case.get('feats'), 'configs': [{'kind': c['kind'], 'plan': plan_class(c['plan']), 'bufsize': c['bufsize']}
                                                   for c in case['configs']]}
