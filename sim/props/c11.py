"""C11 — the writer always emits balanced envelopes with correct counts.

History property: seeded well-nested write histories (trailers supplied right,
wrong, blank, non-numeric, or omitted where an enclosing trailer / Close
follows), Close() after *every* prefix (crash-like close at an arbitrary
instant), several writers interleaved by the scheduler, all delimiter settings.
Oracle: refmodel.writer_model + envelope recount + re-read with X12Reader.
"""
import io
import os

import core
import seams
import envgen
from refmodel import tokenise as T
from refmodel import envelope as E
from refmodel import writer_model as W
from props import c01 as _c01

ID = 'C11'
LEVEL = 'exploration'
RULE = ('Seeded well-nested write histories (<= 60 writes; 1..3 interchanges, groups, sets; supplied trailers with right/'
        'wrong/blank/non-numeric counts and control numbers; trailers omitted where an enclosing trailer or Close follows), '
        'each executed in full and with Close() after every prefix on a fresh writer, 1..3 writers interleaved by the seeded '
        'scheduler, every delimiter/eol/repetition setting. One evaluation = one (history prefix, Close). distinct_nontrivial = '
        'distinct (open-envelope stack at Close, kinds of trailers generated, trailer-fault kinds seen, delimiter class) keys.')
ASSUMPTIONS = [
    'refmodel.writer_model (DESIGN A.7) states what the output must contain',
    'data never contain the writer\'s delimiters; a sibling header while the previous one is open is outside the property',
    'segments are compared in normal form (trailing empty elements/components trimmed)',
]
COMPONENTS = {
    'real': ['pyx12.x12file.X12Writer/X12Base', 'pyx12.segment.Segment', 'pyx12.x12file.X12Reader (re-read)'],
    'simulated': ['output sink (SimSink write history)', 'interleaving of writer objects', 'Close at every prefix'],
    'models': ['refmodel.writer_model', 'refmodel.envelope.recount', 'refmodel.tokenise'],
}

SEG_TERMS = ['~', '~', '\n', '!', '+', '\x1d', "'"]
ELE_TERMS = ['*', '*', '|', '^', '\t', ',']
SUB_TERMS = [':', '\\', '>', '<', '@']
REPS = ['^', '`', '#', '&']
EOLS = ['', '\n', '\r\n', '\n', '']
DATA = 'ABCDEFGHIJKLMNOPQRSTUVWXYZ0123456789 .-/()'


def tier_config(tier):
    if tier == 'thorough':
        return {'runs': 40000, 'wall': 780, 'det_probe': 8}
    return {'runs': 4000, 'wall': 150, 'det_probe': 4}


def trailer(rng, sid, true_count, ctl, stats):
    r = rng.random()
    if r < 0.45:
        return [sid, str(true_count), ctl]
    kind = rng.choice(['count_off', 'count_blank', 'count_nonnum', 'ctl_wrong', 'ctl_blank', 'no_elements', 'one_element'])
    stats.append(kind)
    if kind == 'count_off':
        return [sid, str(true_count + rng.choice([-1, 1, 2, 5])), ctl]
    if kind == 'count_blank':
        return [sid, '', ctl]
    if kind == 'count_nonnum':
        return [sid, rng.choice(['X', '1A']), ctl]
    if kind == 'ctl_wrong':
        return [sid, str(true_count), ctl[:-1] + ('9' if ctl[-1:] != '9' else '8')]
    if kind == 'ctl_blank':
        return [sid, str(true_count), '']
    if kind == 'no_elements':
        return [sid]
    return [sid, str(true_count)]


def gen_history(rng, icvn, budget=60):
    ev = []
    stats = []
    n_isa = rng.choice([1, 1, 1, 2, 3])
    ictl0 = rng.randint(1, 900000000)
    for a in range(n_isa):
        last_isa = a == n_isa - 1
        ictl = '%09d' % (ictl0 + a)
        ev.append(envgen.isa_seg(icvn, ictl, rng.choice([':', '>']), rng.choice(['^', 'U'])))
        n_gs = rng.choice([0, 1, 1, 2, 3])
        g0 = rng.randint(1, 9000)
        omit_chain = last_isa      # may trailers at the end of this interchange be omitted?
        for g in range(n_gs):
            last_gs = g == n_gs - 1
            gctl = str(g0 + g)
            if g and rng.random() < 0.08:
                gctl = str(g0 + g - 1)          # a group control number reused within the interchange
                stats.append('dup_gs06')
            ev.append(['GS', 'HC', 'SENDER', 'RECEIVER', '20040102', '1230', gctl, 'X', '004010X098A1'])
            n_st = rng.choice([0, 1, 1, 2, 4])
            s0 = rng.randint(1, 9000)
            for s in range(n_st):
                last_st = s == n_st - 1
                sctl = '%04d' % (s0 + s)
                if s and rng.random() < 0.12:
                    sctl = '%04d' % (s0 + rng.randrange(0, s))     # a set control number reused within the group
                    stats.append('dup_st02')
                if rng.random() < 0.03:
                    ev.append(['ST', '837'])             # a header without its control number: the generated trailer has none either
                    stats.append('st02_absent')
                    sctl = ''
                else:
                    ev.append(['ST', '837', sctl])
                nb = rng.randint(0, 6)
                for _ in range(nb):
                    sid = rng.choice(envgen.BODY_IDS + ['HL', 'LX', 'CLM'])
                    els = []
                    for _ in range(rng.choice([0, 1, 2, 3, 5])):
                        if rng.random() < 0.2:
                            els.append(':'.join(envgen.body_value(rng, DATA) for _ in range(rng.choice([2, 3]))))
                        else:
                            els.append(envgen.body_value(rng, DATA) if rng.random() < 0.85 else '')
                    ev.append([sid] + els)
                # SE may be omitted only if an enclosing trailer or Close follows, i.e. it is the last set of its group
                if last_st and rng.random() < 0.4:
                    stats.append('se_omitted')
                else:
                    ev.append(trailer(rng, 'SE', nb + 2, sctl, stats))
            if last_gs and rng.random() < 0.35:
                stats.append('ge_omitted')
                omitted_ge = True
            else:
                ev.append(trailer(rng, 'GE', n_st, gctl, stats))
                omitted_ge = False
        if last_isa and rng.random() < 0.4:
            stats.append('iea_omitted')
        else:
            ev.append(trailer(rng, 'IEA', n_gs, ictl, stats))
        if len(ev) > budget:
            break
    # if we broke out early the history is still well nested (a prefix followed by Close)
    return ev[:budget + 8], stats


def gen_delims(rng):
    while True:
        d = {'seg_term': rng.choice(SEG_TERMS), 'ele_term': rng.choice(ELE_TERMS), 'subele_term': rng.choice(SUB_TERMS),
             'repetition_term': rng.choice(REPS), 'eol': rng.choice(EOLS)}
        if rng.random() < 0.15:
            # the caller's segments were parsed with ~ * : - the writer's own set may use those characters in other roles
            d['subele_term'], d['ele_term'] = ('*', rng.choice(['|', ':'])) if rng.random() < 0.5 else (d['subele_term'], d['ele_term'])
            if rng.random() < 0.5:
                d['repetition_term'] = ':'
        chars = [d['seg_term'], d['ele_term'], d['subele_term'], d['repetition_term']]
        if len(set(chars)) == 4 and not (d['seg_term'] == '\n' and d['eol']):
            return d


def generate(rng, tier, run, seed=0):
    k = rng.choice([1, 1, 2, 3])
    hist = []
    for _ in range(k):
        icvn = rng.choice(['00401', '00501'])
        ev, stats = gen_history(rng, icvn)
        hist.append({'events': ev, 'delims': gen_delims(rng), 'stats': stats, 'default_delims': rng.random() < 0.15,
                     'by_name': rng.random() < 0.25})
    # interleaving schedule: which writer performs its next write
    sched = []
    remaining = [len(h['events']) for h in hist]
    while any(remaining):
        i = rng.choice([j for j, r in enumerate(remaining) if r])
        sched.append(i)
        remaining[i] -= 1
    return {'histories': hist, 'schedule': sched}


# ------------------------------------------------------------------ execution

def make_writer(h, sink):
    import pyx12.x12file
    if h.get('default_delims'):
        return pyx12.x12file.X12Writer(sink), {'seg_term': '~', 'ele_term': '*', 'subele_term': '\\', 'eol': '\n',
                                                'repetition_term': '^'}
    d = h['delims']
    return pyx12.x12file.X12Writer(sink, d['seg_term'], d['ele_term'], d['subele_term'], d['eol'], d['repetition_term']), d


def to_segment(ev):
    import pyx12.segment
    s = ev[0] + ''.join('*' + e for e in ev[1:])
    return pyx12.segment.Segment(s + '~', '~', '*', ':')


def check_output(events, d, sink, out, tag):
    text = sink.getvalue()
    want = W.expected(events, d['subele_term'], d['repetition_term'])
    if not want:
        if text != '':
            out.violate('output', 'spurious-output', '%s: output %r for an empty history' % (tag, text[:60]))
        return
    got, tail = T.tokenise_plain(text, d['seg_term'], d['ele_term'], d['subele_term'])
    got_l = []
    for s in got:
        els = s.elements if s.id != 'ISA' else [[d['subele_term'].join(c)] for c in s.elements]
        got_l.append(W.trim([s.id] + els))
    want_l = [W.trim(s) for s in want]
    if got_l != want_l:
        j = next((i for i in range(min(len(got_l), len(want_l))) if got_l[i] != want_l[i]), min(len(got_l), len(want_l)))
        g = got_l[j] if j < len(got_l) else None
        w = want_l[j] if j < len(want_l) else None
        kind = 'trailer' if (w and w[0] in ('SE', 'GE', 'IEA')) or (g and g[0] in ('SE', 'GE', 'IEA')) else 'segment'
        sub = ''
        if g and w and g[0] == w[0] and kind == 'trailer':
            sub = 'count' if g[1:2] != w[1:2] else 'ctl'
        elif g is None:
            sub = 'missing'
        elif w is None:
            sub = 'extra'
        out.violate('output', 'output-mismatch|%s|%s|%s' % (kind, (w or g)[0], sub),
                    '%s: output segment #%d is %r, model expects %r' % (tag, j + 1, g, w))
        return
    if tail.strip('\r\n') != '':
        out.violate('output', 'output-tail', '%s: unterminated tail %r' % (tag, tail[:40]))
    nwrites = len([w for w in sink.writes if w != ''])
    if nwrites != len(want):
        out.violate('writes', 'write-count', '%s: %d writes for %d segments' % (tag, nwrites, len(want)))
    # the ISA carries the writer's own delimiters
    if want[0][0] == 'ISA' and len(want[0]) == 17:
        try:
            tk = T.tokenise(text)
        except T.NotX12 as e:
            out.violate('isa', 'isa-header-unreadable', '%s: written ISA is not a readable header: %s' % (tag, e))
            return
        exp_rep = d['repetition_term'] if tk.icvn == '00501' else None
        if tk.delims() != (d['seg_term'], d['ele_term'], d['subele_term'], exp_rep):
            out.violate('isa', 'isa-delims', '%s: ISA declares %r, writer uses %r' % (tag, tk.delims(), d))
            return
        # independent recount on the output
        flat = [[s.id] + [d['subele_term'].join(c) for c in s.elements] for s in tk.segs]
        rc = E.recount(flat)
        # reused control numbers are the caller's doing (the statement promises true counts and matching trailers, not
        # uniqueness): the uniqueness codes are not held against the writer
        uniq = (('st', '23'), ('gs', '6'), ('isa', '025'))
        errs = [e for e in rc.errors if (e[1], e[2]) in E.TRACKED and e[2] not in ('HL1', 'HL2', 'LX') and (e[1], e[2]) not in uniq]
        if not rc.nested or errs:
            out.violate('recount', 'recount|%s' % ','.join(sorted(set('%s%s' % (e[1], e[2]) for e in errs)) or ['improper']),
                        '%s: independent recount of the output finds %r nested=%s' % (tag, errs, rc.nested))
            return
        # pyx12's own reader accepts it without envelope errors
        import pyx12.x12file
        try:
            rd = pyx12.x12file.X12Reader(io.StringIO(text))
            errs = []
            for seg in rd:
                errs += [(e[0], e[1]) for e in rd.pop_errors()]
            rd.cleanup()
            errs += [(e[0], e[1]) for e in rd.pop_errors()]
        except Exception as e:
            out.violate('reread', 'reread-exception|' + _c01.exc_sig(e), '%s: reader raised on writer output: %s' % (tag, e))
            return
        bad = sorted(set(e for e in errs if e in E.TRACKED and e[1] not in ('HL1', 'HL2', 'LX') and e not in uniq))
        if bad:
            out.violate('reread', 'reread-envelope-error|%s' % ','.join('%s%s' % e for e in bad),
                        '%s: reader reports %r on writer output' % (tag, bad))


def stack_at_close(events):
    st = []
    for e in events:
        if e[0] in ('ISA', 'GS', 'ST'):
            st.append(e[0])
        elif e[0] == 'SE':
            while st and st.pop() != 'ST':
                pass
        elif e[0] == 'GE':
            while st and st.pop() != 'GS':
                pass
        elif e[0] == 'IEA':
            while st and st.pop() != 'ISA':
                pass
    return '>'.join(st)


def execute(case):
    seams.import_pyx12()
    out = core.Outcome()
    log = core.EventLog()
    hs = case['histories']
    evals = 0
    try:
        # 1. full histories, interleaved
        sinks = [seams.SimSink('w%d' % i, log) for i in range(len(hs))]
        writers = []
        for i, h in enumerate(hs):
            w, d = make_writer(h, sinks[i])
            writers.append((w, d))
        pos = [0] * len(hs)
        for i in case['schedule']:
            ev = hs[i]['events'][pos[i]]
            pos[i] += 1
            log.ev('op', i, ev[0])
            writers[i][0].Write(to_segment(ev))
        for i, h in enumerate(hs):
            writers[i][0].Close()
            check_output(h['events'], writers[i][1], sinks[i], out, 'history %d (interleaved, full)' % i)
            evals += 1
            for s in h['stats']:
                out.fault(s)
        # 1b. the same history written to a file the writer opens itself by name: after Close() the file holds the interchange
        for i, h in enumerate(hs):
            if not h.get('by_name') or h.get('default_delims'):
                continue
            import tempfile
            import pyx12.x12file
            base = os.environ.get('VERIF_SCRATCH_RUN') or tempfile.gettempdir()
            fd, path = tempfile.mkstemp(prefix='c11-', suffix='.x12', dir=base)
            os.close(fd)
            try:
                d = h['delims']
                w = pyx12.x12file.X12Writer(path, d['seg_term'], d['ele_term'], d['subele_term'], d['eol'], d['repetition_term'])
                for ev in h['events']:
                    w.Write(to_segment(ev))
                w.Close()
                with open(path, 'r', encoding='latin-1', newline='') as f:
                    on_disk = f.read()
                evals += 1
                out.fault('writer-opened-by-name')
                want = sinks[i].getvalue().replace('\r\n', '\n') if False else sinks[i].getvalue()
                if on_disk.replace('\r\n', '\n') != want.replace('\r\n', '\n'):
                    out.violate('output', 'by-name-file-differs|%s' % ('empty' if on_disk == '' else 'content'),
                                'history %d written to a file opened by name: after Close() the file holds %d characters, the same history '
                                'written to a stream gives %d' % (i, len(on_disk), len(want)))
            finally:
                try:
                    os.unlink(path)
                except OSError:
                    pass
        # 2. Close after every prefix, each on a fresh writer
        for i, h in enumerate(hs):
            for p in range(len(h['events'])):
                sink = seams.SimSink('p', None)
                w, d = make_writer(h, sink)
                for ev in h['events'][:p]:
                    w.Write(to_segment(ev))
                w.Close()
                n0 = len(out.violations)
                check_output(h['events'][:p], d, sink, out, 'history %d closed after %d writes' % (i, p))
                evals += 1
                stack = stack_at_close(h['events'][:p])
                if stack:
                    out.fault('close_with_open:' + stack)
                dcls = 'default' if h.get('default_delims') else ('nl' if d['seg_term'] == '\n' else ('eol' if d['eol'] else 'plain'))
                out.cover.add('%s|%s|%s' % (stack, ','.join(sorted(set(h['stats']))), dcls))
                if len(out.violations) > n0:
                    break
    except Exception as e:
        out.violate('exception', 'exception|' + _c01.exc_sig(e), '%s: %s' % (_c01.exc_sig(e), e))
    out.info['evals'] = evals
    out.steps = log.seq
    out.digest = log.digest()
    return out


def shrink(case, still):
    best = case
    # one history
    for i, h in enumerate(case['histories']):
        c = {'histories': [h], 'schedule': [0] * len(h['events'])}
        if still(c):
            best = c
            break
    if len(best['histories']) == 1:
        h = best['histories'][0]

        def t(sub):
            return still({'histories': [dict(h, events=sub)], 'schedule': [0] * len(sub)})
        # shortest failing prefix first
        for p in range(len(h['events']) + 1):
            if t(h['events'][:p]):
                h = dict(h, events=h['events'][:p])
                break
        ev = core.ddmin(h['events'], t, 200)
        h = dict(h, events=ev)
        best = {'histories': [h], 'schedule': [0] * len(ev)}
        c = {'histories': [dict(h, delims={'seg_term': '~', 'ele_term': '*', 'subele_term': ':', 'repetition_term': '^', 'eol': ''},
                                default_delims=False)], 'schedule': [0] * len(ev)}
        if still(c):
            best = c
    return best


def sample_view(case, out):
    h = case['histories'][0]
    return {'writers': len(case['histories']), 'history0': ['*'.join(e) for e in h['events'][:16]], 'n_events0': len(h['events']),
            'delims0': h['delims'], 'trailer_faults0': h['stats'], 'schedule_head': case['schedule'][:20]}
