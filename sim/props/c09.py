"""C09 — the context reader partitions the document without loss, duplication or reordering.

Producer/consumer simulation: X12ContextReader.iter_segments(loop_id) is a
generator (the producer); the consumer is a scheduled task that, after each
yielded node, may continue, edit the yielded tree through the public API, or
advance another live context reader over another document.  Oracle: the
generator's ground-truth loop-instance tree.
"""
import core
import seams
import mapspec
import docgen
import docsim
import observe
from refmodel import tokenise as T
from refmodel import values as V
from props import c08 as _c08

ID = 'C09'
LEVEL = 'exploration'
RULE = ('1..2 structurally valid documents per run (every selectable map round-robin), each read by its own X12ContextReader '
        'with a loop id drawn from: none, every segment-anchored loop occurring in the document, ISA_LOOP/GS_LOOP/ST_LOOP, a loop '
        'that does not occur; the readers are advanced in a seeded interleaving and the consumer edits yielded trees (set_value, '
        'delete_node, delete_segment) before resuming. One evaluation = one (document, loop id) iteration. distinct_nontrivial = '
        'distinct (map file, loop id, how the tree ended: next-instance / left-loop / end-of-input) keys.')
ASSUMPTIONS = [
    'ground truth (node path, loop instance, position in set, source line) comes from the independent generator',
    'snapshots of yielded nodes are taken at yield time, before the consumer edits them',
    'position-in-set is checked for every segment of a set, ST..SE (GE/IEA/ISA/GS are outside any set; they carry the reader\'s running count, which the statement does not define)',
]
COMPONENTS = {
    'real': ['pyx12.x12context.X12ContextReader / X12LoopDataNode / X12SegmentDataNode', 'pyx12.map_walker', 'pyx12.x12file.X12Reader'],
    'simulated': ['source devices (chunk plans)', 'consumer task and interleaving of several live generators'],
    'models': ['docgen ground-truth loop-instance tree', 'refmodel.tokenise'],
}


def tier_config(tier):
    if tier == 'thorough':
        return {'runs': 16000, 'wall': 820, 'det_probe': 4}
    return {'runs': 2500, 'wall': 150, 'det_probe': 3}


def anchored_loops(g):
    """segment-anchored loop ids that occur in the document"""
    ids = []
    for s in g.segs:
        n = s.node.parent
        while n is not None and n.kind == 'loop':
            if n.children and n.children[0].kind == 'segment' and n.id not in ids:
                ids.append(n.id)
            n = n.parent
    return ids


def gen_doc(rng, entry, tier):
    cap = rng.choice([30, 80, 160]) if tier == 'quick' else rng.choice([50, 200, 800])
    if rng.random() < 0.08:
        # two interchanges of different versions in one file: the control map changes at the second ISA
        g = docsim.draw_mixed(rng, size_cap=cap, structural=True, alphabet=V.PLAIN, charset='E')
        entry = dict(entry, file='+'.join(g.files))
    elif rng.random() < 0.15:
        # groups of different maps in one interchange: the reader switches maps at GS, loop ids of one map may be
        # prefixes of loop ids of another
        g = docsim.draw_multimap(rng, entry['icvn'], size_cap=cap, structural=True, alphabet=V.PLAIN, charset='E')
        entry = dict(entry, file='+'.join(g.files))
    else:
        g = docsim.draw_doc(rng, entry, size_cap=cap, structural=True, alphabet=V.PLAIN, charset='E')
    d = ['~', '*', ':', '^']
    text = docsim.encode(rng, g.segs, d, rng.choice(['none', 'lf', 'crlf']))
    loops = anchored_loops(g)
    r = rng.random()
    if r < 0.1:
        loop_id = None
    elif r < 0.8 and loops:
        loop_id = rng.choice(loops)
    elif r < 0.9:
        m = mapspec.load_map(entry['file'].split('+')[0])
        absent = [n.id for n in mapspec.walk(m) if n.kind == 'loop' and n.children and n.children[0].kind == 'segment' and n.id not in loops]
        loop_id = rng.choice(absent) if absent else None
    else:
        loop_id = rng.choice(['ISA_LOOP', 'GS_LOOP', 'ST_LOOP'])
    truth = [[s.node.path(), [list(x) for x in s.inst], s.node.id, s.seg_count, s.line] for s in g.segs]
    plan = docsim.draw_config(rng, text, allow_path=False)
    return {'text': text, 'truth': truth, 'loop_id': loop_id, 'plan': plan['plan'], 'bufsize': plan['bufsize'], 'map': entry['file']}


def generate(rng, tier, run, seed=0):
    ents = [e for e in docsim.entries() if e['file'] not in docsim.EXCLUDED_MAPS]
    ndocs = rng.choice([1, 1, 2])
    docs = []
    for k in range(ndocs):
        entry = ents[(run + k * 7) % len(ents)]
        try:
            docs.append(gen_doc(rng, entry, tier))
        except docgen.Unsupported as e:
            pass
    if not docs:
        return {'unsupported': True, 'docs': []}
    # schedule: which reader advances next, and what the consumer does with what it gets
    sched = [[rng.randrange(len(docs)), rng.choice(['continue', 'continue', 'edit_set', 'edit_delete', 'edit_delseg']), rng.random()]
             for _ in range(4000)]
    return {'docs': docs, 'schedule': sched[:sum(len(d['truth']) for d in docs) + 20]}


def snapshot(node):
    """-> (kind, tree) where tree is nested: ('loop', id, [children]) / ('seg', id, values, path, seg_count, line)"""
    if node.type == 'seg':
        s = node.seg_data
        vals = [[e.get_value() for e in c.elements] for c in s.elements]
        return ('seg', s.get_seg_id(), vals, node.x12_map_node.get_path(), node.seg_count, node.cur_line_number)
    return ('loop', node.id, [snapshot(c) for c in node.children if c.type is not None])


def flatten(snap, chain=()):
    if snap[0] == 'seg':
        yield snap, chain
    else:
        me = chain + ((snap[1], id(snap)),)
        for c in snap[2]:
            for x in flatten(c, me):
                yield x


def consumer_edit(node, action, u):
    """the README's pattern: edit the yielded tree through the public API"""
    try:
        if node.type == 'loop':
            segs = [c for c in node.children if c.type == 'seg']
            if action == 'edit_set' and segs:
                c = segs[int(u * len(segs))]
                node.set_value('%s01' % c.id, 'EDITED')
            elif action == 'edit_delete' and len(segs) > 1:
                c = segs[1 + int(u * (len(segs) - 1))]
                node.delete_node(c.id)
            elif action == 'edit_delseg' and len(segs) > 1:
                c = segs[-1]
                node.delete_segment(c.seg_data)
        elif action == 'edit_set':
            node.seg_data.set('01', 'EDITED')
    except Exception:
        pass        # the editing API has its own property (C10); here only later yields matter


def check_doc(doc, yielded, ended, out, tag):
    truth = doc['truth']
    loop_id = doc['loop_id']
    tk = T.tokenise(doc['text'])
    flat = []
    for snap in yielded:
        for seg, chain in flatten(snap):
            flat.append((seg, chain, snap))
    src = [(s.id, s.elements) for s in tk.segs]
    got = [(seg[1], seg[2]) for seg, chain, snap in flat]
    if got != src:
        if len(got) < len(src) and got == src[:len(got)]:
            lost = src[len(got)]
            where = truth[len(got)][0]
            kind = 'tail-lost' if ended else 'stopped'
            out.violate('partition', 'segments-lost|%s|%s' % (kind, 'envelope-loop' if loop_id in ('ISA_LOOP', 'GS_LOOP', 'ST_LOOP') else 'loop' if loop_id else 'none'),
                        '%s: iteration ended after %d of %d segments; first missing %s at %s' % (tag, len(got), len(src), lost[0], where))
        else:
            j = next((i for i in range(min(len(got), len(src))) if got[i] != src[i]), min(len(got), len(src)))
            out.violate('partition', 'partition-mismatch', '%s: yielded segment #%d is %r, source has %r' % (
                tag, j + 1, got[j] if j < len(got) else None, src[j] if j < len(src) else None))
        return
    # per segment: path, line, position; per tree: exactly one ground-truth instance, placement by instance
    line = 0
    for snap in yielded:
        segs = list(flatten(snap))
        if snap[0] == 'loop':
            if snap[1] != loop_id:
                out.violate('tree', 'tree-root-id', '%s: tree rooted at %r, requested %r' % (tag, snap[1], loop_id))
                return
            first_t = truth[line]
            depth = next((k for k, x in enumerate(first_t[1]) if x[0] == loop_id), None)
            if depth is None:
                out.violate('tree', 'tree-not-in-loop', '%s: a tree starts at line %d (%s) which is not inside %s' % (tag, line + 1, first_t[0], loop_id))
                return
            prefix = first_t[1][:depth + 1]
            want_lines = [i for i, t in enumerate(truth) if t[1][:depth + 1] == prefix]
            got_lines = list(range(line, line + len(segs)))
            if got_lines != want_lines:
                kind = 'short' if len(got_lines) < len(want_lines) else 'long'
                out.violate('tree', 'tree-extent|%s' % kind, '%s: tree of %s instance %r holds lines %d..%d, the instance spans lines %d..%d' % (
                    tag, loop_id, prefix[-1], got_lines[0] + 1, got_lines[-1] + 1, want_lines[0] + 1, want_lines[-1] + 1))
                return
            inst_of = {}
            seen = {}
            for k, (seg, chain) in enumerate(segs):
                t = truth[line + k]
                want_chain = [x[0] for x in t[1][depth:]]
                got_chain = [c[0] for c in chain]
                if got_chain != want_chain:
                    out.violate('tree', 'tree-placement|path', '%s: line %d (%s) sits under %r, its map path is %r' % (tag, line + k + 1, seg[1], got_chain, want_chain))
                    return
                for j, c in enumerate(chain):
                    key = tuple(tuple(x) for x in t[1][:depth + j + 1])
                    if c[1] in inst_of and inst_of[c[1]] != key:
                        out.violate('tree', 'tree-placement|merged', '%s: line %d: loop node %s holds two instances' % (tag, line + k + 1, c[0]))
                        return
                    if key in seen and seen[key] != c[1]:
                        out.violate('tree', 'tree-placement|split', '%s: line %d: instance %r spread over two loop nodes' % (tag, line + k + 1, key[-1]))
                        return
                    inst_of[c[1]] = key
                    seen[key] = c[1]
        else:
            t = truth[line]
            if loop_id is not None and any(x[0] == loop_id for x in t[1]):
                out.violate('tree', 'segment-outside-tree', '%s: line %d (%s) lies inside %s but was yielded as a plain segment' % (tag, line + 1, t[0], loop_id))
                return
        for k, (seg, chain) in enumerate(segs):
            t = truth[line + k]
            if seg[3].split('[')[0] != t[0]:
                out.violate('node', 'node-path', '%s: line %d matched %s, ground truth %s' % (tag, line + k + 1, seg[3], t[0]))
                return
            if seg[5] != t[4]:
                out.violate('node', 'line-number', '%s: line %d carries cur_line_number %r' % (tag, line + k + 1, seg[5]))
                return
            if t[2] not in ('ISA', 'GS', 'GE', 'IEA') and seg[4] != t[3]:
                out.violate('node', 'seg-count', '%s: line %d (%s) carries seg_count %r, position in set is %r' % (tag, line + k + 1, t[2], seg[4], t[3]))
                return
        line += len(segs)


def execute(case):
    seams.import_pyx12()
    import pyx12.x12context
    import pyx12.params
    import pyx12.error_handler
    out = core.Outcome()
    log = core.EventLog()
    docs = case.get('docs', [])
    if not docs:
        out.probe('unsupported')
        out.digest = log.digest()
        return out
    gens = []
    state = []
    try:
        for i, d in enumerate(docs):
            param = pyx12.params.params()
            rd = pyx12.x12context.X12ContextReader(param, pyx12.error_handler.errh_null(),
                                                   seams.SimSource(d['text'], d['plan'], log=log))
            gens.append(rd.iter_segments(d['loop_id']))
            state.append({'yielded': [], 'done': False, 'exc': None})
        # the scheduler: one integer (the case) decides who advances next
        si = 0
        sched = case['schedule']
        with seams.bufsize(docs[0]['bufsize']):
            while not all(s['done'] for s in state):
                who, action, u = sched[si % len(sched)] if sched else (0, 'continue', 0.0)
                si += 1
                who = who % len(gens)
                if state[who]['done']:
                    who = next(k for k, s in enumerate(state) if not s['done'])
                try:
                    node = next(gens[who])
                except StopIteration:
                    state[who]['done'] = True
                    continue
                except Exception as e:
                    state[who]['done'] = True
                    state[who]['exc'] = e
                    continue
                log.ev('yield', who, node.type, node.id)
                state[who]['yielded'].append(snapshot(node))
                if action != 'continue':
                    consumer_edit(node, action, u)
                    out.fault('consumer:' + action)
                if len(gens) > 1:
                    out.fault('interleave')
    except Exception as e:
        out.violate('exception', 'exception|' + observe.exc_sig(e), 'harness-level failure: %s' % e)
    for i, (d, s) in enumerate(zip(docs, state)):
        tag = 'doc %d (%s, loop %s)' % (i, d['map'], d['loop_id'])
        if s['exc'] is not None:
            out.violate('exception', 'exception|%s' % observe.exc_sig(s['exc']), '%s: iter_segments raised %s: %s' % (tag, observe.exc_sig(s['exc']), s['exc']))
            continue
        n0 = len(out.violations)
        check_doc(d, s['yielded'], True, out, tag)
        trees = [y for y in s['yielded'] if y[0] == 'loop']
        out.cover.add('%s|%s|trees=%d' % ('multimap' if '+' in d['map'] else d['map'], d['loop_id'], min(len(trees), 3)))
        if '+' in d['map']:
            out.fault('multimap-document')
    out.info['evals'] = len(docs)
    out.steps = log.seq
    out.digest = log.digest()
    return out


def shrink(case, still):
    best = case
    for d in case['docs']:
        c = dict(best, docs=[d])
        if still(c):
            best = c
            break
    c = dict(best, schedule=[[0, 'continue', 0.0]])
    if still(c):
        best = c
    return best


def sample_view(case, out):
    return {'docs': [{'map': d['map'], 'loop_id': d['loop_id'], 'segments': len(d['truth']), 'text_head': d['text'][:200]} for d in case.get('docs', [])],
            'schedule_head': case.get('schedule', [])[:8]}
