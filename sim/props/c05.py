"""C05 — verdict, reported errors and acknowledgement always agree.

An invariant over the recorded outputs of simulated validation runs (fault-free
and multiply-faulty, multi-set / multi-group / multi-interchange): the verdict,
the tapped error tree (own traversal) and the parsed 997/999 are recomputed
against each other and against an independent reading of the source envelope.
"""
import core
import seams
import mapspec
import docgen
import docsim
import faults as F
import workload as WL
from refmodel import ack_parser as AP
from refmodel import tokenise as T

ID = 'C05'
LEVEL = 'exploration'
RULE = ('Documents of every selectable non-acknowledgement map (round-robin), 1..2 interchanges x 1..2 groups x 1..3 sets, with '
        '0..5 injected data faults spread over sets (sometimes a missing required segment meeting an element fault) plus optional '
        'trailer count/control-number faults, element and reader-level errors on envelope segments, and structural damage (stray '
        'segment between envelope segments, SE/GE/ST that never comes, a set of a foreign type, several senders), validated '
        'behind the seams with the acknowledgement sink on. One evaluation = one validation. distinct_nontrivial = distinct '
        '(map file, envelope shape, sorted multiset of reported (level, code)) keys.')
ASSUMPTIONS = [
    'envelope structure is intact, so source groups/sets are well defined by an independent reading of the source',
    'standard codes: AK304 1..8, AK403 1..10 (999 adds 12, 13 and the I-codes); internal codes (SEG1, HL1, HL2, LX) need only reject the set',
    'addressing is checked only when all source interchanges share sender/receiver (one ack interchange cannot address two senders)',
    'offending values containing the acknowledgement\'s own delimiters are compared in C06, not here',
]
COMPONENTS = {
    'real': ['pyx12.x12n_document.x12n_document', 'error_handler tree', 'error_997 / error_999 visitors'],
    'simulated': ['source device', 'ack sink', 'clock', 'PRNG', 'injected data faults'],
    'models': ['own traversal of the error tree', 'refmodel.ack_parser', 'independent envelope reading of the source'],
}
AK3_CODES = {'1', '2', '3', '4', '5', '6', '7', '8'}
AK4_CODES = {'1', '2', '3', '4', '5', '6', '7', '8', '9', '10'}
IK3_CODES = AK3_CODES | {'I4', 'I6', 'I7', 'I8', 'I9'}
IK4_CODES = AK4_CODES | {'12', '13', 'I10', 'I11', 'I12', 'I13', 'I6', 'I9'}


def tier_config(tier):
    if tier == 'thorough':
        return {'runs': 30000, 'wall': 820, 'det_probe': 4}
    return {'runs': 3000, 'wall': 150, 'det_probe': 3}


def pick_delims(rng, doc, icvn):
    data = set()
    for s in doc:
        for i, v in enumerate(s['vals']):
            if s['id'] == 'ISA' and i in (10, 15):
                continue
            for x in (v if isinstance(v, list) else [v]):
                data.update(x)
    for _ in range(20):
        d = [rng.choice(['~', '~', '\n', '!']), rng.choice(['*', '*', '|']), rng.choice([':', ':', '>', '<'])]
        if len(set(d)) == 3 and not (set(d) & data):
            return d
    return ['~', '*', ':']


def gen_case(rng, run, tier, alphabet=None, fault_alphabet=None, want_html=False, include_fa=False, kinds=None):
    ents = [e for e in docsim.entries() if e['file'] not in docsim.EXCLUDED_MAPS and (include_fa or e['fic'] != 'FA')]
    entry = ents[run % len(ents)]
    charset = rng.choice(['E', 'E', 'B']) if alphabet is None else 'E'
    r = rng.random()
    multi = (1, 1, 1) if r < 0.4 else ((1, 1, rng.choice([2, 3])) if r < 0.7 else (rng.choice([1, 2]), rng.choice([1, 2]), rng.choice([1, 2])))
    case = {'entry': entry, 'charset': charset}
    try:
        w = WL.make(rng, entry, charset, multi=multi, size_cap=rng.choice([25, 50, 90]), alphabet=alphabet or docgen.V.PLAIN,
                    fault_alphabet=fault_alphabet, kinds=kinds)
    except docgen.Unsupported as e:
        case['unsupported'] = str(e)
        return case
    d = pick_delims(rng, w['doc'], entry['icvn'])
    eol = rng.choice(['', '\n', '\r\n']) if d[0] != '\n' else ''
    cfg = docsim.draw_config(rng, 'x' * 300, allow_path=False)
    cfg['sinks'] = ['ack'] + (['html'] if want_html or rng.random() < 0.3 else []) + (['xml'] if rng.random() < 0.2 else [])
    case.update({'doc': w['doc'], 'faults': [{k: f.get(k) for k in ('kind', 'line', 'ele', 'comp', 'code', 'seg_id', 'op')} for f in w['applied']],
                 'tfaults': w['tfaults'], 'shape': w['shape'], 'delims': d, 'eol': eol, 'cfg': cfg})
    return case


def generate(rng, tier, run, seed=0):
    return gen_case(rng, run, tier)


def case_text(case):
    d = case['delims']
    return F.to_text(case['doc'], d[0], d[1], d[2], case['eol'])


def check(case, r, out):
    """the C05 oracle over one completed validation"""
    entry = case['entry']
    is999 = entry['icvn'] == '00501'
    # (1) verdict <=> no error at any level
    n = len(r.errors)
    if (r.verdict is True) != (n == 0):
        out.violate('verdict', 'verdict-vs-errors|%s' % ('true-with-errors' if r.verdict else 'false-without-errors'),
                    'verdict %r but the error tree holds %d errors %r' % (r.verdict, n, r.errors[:3]))
        return
    # (1b) the log is a second report channel: nothing the engine reported there may be missing from the verdict, and the
    # error handler must never have had to drop an error for want of a place to file it
    logged = r.logtap.engine_errors() if r.logtap is not None else []
    lost = [m for m in logged if 'No current segment in error_handler' in m]
    if lost:
        out.violate('verdict', 'error-lost|' + ('verdict-true' if r.verdict else 'verdict-false'),
                    'the error handler dropped a reported error (verdict %r, %d errors in the tree): %s' % (r.verdict, n, lost[0][:160]))
        return
    if r.verdict is True and logged:
        out.violate('verdict', 'verdict-vs-log|true-with-logged-errors', 'verdict True although the engine logged %d errors: %s' % (len(logged), logged[0][:160]))
        return
    if r.ack is None or entry['fic'] == 'FA':
        return
    groups = WL.source_groups(case['doc'])
    try:
        a = AP.parse(r.ack)
    except T.NotX12 as e:
        out.violate('ack', 'ack-unreadable', 'ack is not a readable interchange: %s' % e)
        return
    # (2) every group and set named, in order, with its own control numbers
    if len(a.sets) != len(groups):
        out.violate('ack', 'ack-group-count', 'ack names %d groups, source has %d' % (len(a.sets), len(groups)))
        return
    # map tree structure to flat list of groups
    tree_groups = [(ii, gi, gs) for ii, isa in enumerate(r.struct) for gi, gs in enumerate(isa['gs'])]
    for k, (sg, ag) in enumerate(zip(groups, a.sets)):
        ak1 = ag['ak1']
        want1 = [WL.val(sg['gs'], 1), WL.val(sg['gs'], 6)] + ([WL.val(sg['gs'], 8)] if is999 else [])
        got1 = [ak1.get(i) for i in range(1, len(want1) + 1)] if ak1 is not None else None
        if got1 != want1:
            out.violate('ack', 'ak1-mismatch', 'group %d: AK1 %r, source GS says %r' % (k + 1, got1, want1))
            return
        if len(ag['tx']) != len(sg['sets']):
            out.violate('ack', 'ack-set-count', 'group %d: ack names %d sets, source has %d' % (k + 1, len(ag['tx']), len(sg['sets'])))
            return
        ii, gi, _ = tree_groups[k] if k < len(tree_groups) else (None, None, None)
        accepted = 0
        group_has_error = any(e.isa == ii and e.gs == gi for e in r.errors)
        # ground truth of the workload: a stray segment inside the group but outside its sets, or a reader error on the GS/GE line
        # itself, is an error inside the group although the engine files it on the interchange
        doc = case['doc']
        a0 = next(i_ for i_, s_ in enumerate(doc) if s_ is sg["gs"])
        in_set = False
        for s_ in doc[a0:]:
            if s_ is not sg['gs'] and s_['id'] in ('GS', 'IEA', 'ISA'):
                break
            if s_['id'] == 'ST':
                in_set = True
            elif s_['id'] == 'SE':
                in_set = False
            elif s_['id'] == 'ZZZ' and not in_set:
                group_has_error = True
            if s_['id'] in ('GS', 'GE') and s_.get('reader_error'):
                group_has_error = True
            if s_['id'] == 'GE':
                break
        for j, (ss, tx) in enumerate(zip(sg['sets'], ag['tx'])):
            want2 = [WL.val(ss['st'], 1), (WL.val(ss['st'], 2) or '').strip()]
            st3 = WL.val(ss['st'], 3)
            got2 = [tx['ak2'].get(1), tx['ak2'].get(2)]
            if got2 != want2:
                out.violate('ack', 'ak2-mismatch', 'group %d set %d: AK2 %r, source ST says %r' % (k + 1, j + 1, got2, want2))
                return
            if is999 and st3 and tx['ak2'].get(3) != st3:
                out.violate('ack', 'ak2-st03-mismatch', 'AK203 %r, source ST03 %r' % (tx['ak2'].get(3), st3))
                return
            set_errs = [e for e in r.errors if e.isa == ii and e.gs == gi and e.st == j]
            code = tx['ak5'].get(1) if tx['ak5'] is not None else None
            if ss['st'].get('reader_error') and code == 'A':
                out.violate('ack', 'ak5-vs-ground-truth|st-reader-error', 'group %d set %d: the ST line itself draws a reader error (leading blank / '
                            'trailing separators), yet the set is acknowledged A' % (k + 1, j + 1))
                return
            if (code == 'A') != (not set_errs):
                out.violate('ack', 'ak5-vs-errors|%s' % ('accepted-with-errors' if code == 'A' else 'rejected-without-errors'),
                            'group %d set %d acknowledged %r but %d errors were reported inside it: %r' % (
                                k + 1, j + 1, code, len(set_errs), set_errs[:3]))
                return
            if code == 'A':
                accepted += 1
            # (3) itemisation of standard-coded segment/element errors
            seg_codes = IK3_CODES if is999 else AK3_CODES
            ele_codes = IK4_CODES if is999 else AK4_CODES
            for e in set_errs:
                if e.level == 'seg' and e.code in seg_codes:
                    hit = [s for s in tx['segs'] if s['seg'] is not None and s['seg'].get(1) == e.seg_id
                           and s['seg'].get(2) == str(e.seg_count) and s['seg'].get(4) == e.code]
                    if not hit:
                        out.violate('ack', 'seg-error-not-itemised|%s' % e.code,
                                    'segment error %s at %s#%s is not itemised (AK3/IK3 lines: %r)' % (
                                        e.code, e.seg_id, e.seg_count, [s['seg'].values() for s in tx['segs'] if s['seg'] is not None][:6]))
                        return
                elif e.level == 'ele' and e.code in ele_codes and e.seg_id not in ('ST', 'SE'):
                    found = False
                    for s in tx['segs']:
                        if s['seg'] is None or s['seg'].get(1) != e.seg_id or s['seg'].get(2) != str(e.seg_count):
                            continue
                        for el in s['eles']:
                            p = el.elements[0] if el.elements else ['']
                            pe = p[0]
                            pc = p[1] if len(p) > 1 and p[1] != '' else None
                            if pe != str(e.ele_pos) or pc != (str(e.subele_pos) if e.subele_pos else None):
                                continue
                            if el.get(3) != e.code:
                                continue
                            if e.ref_num and e.ref_num.isdigit() and el.get(2) != e.ref_num:
                                continue      # (AK402 is numeric; a composite id such as C023 has no place there)
                            v = e.value
                            if v and not (set(v) & set('~*:^\r\n')):
                                got = el.get(4)
                                if got is None and len(el.elements) >= 4:
                                    got = ':'.join(el.elements[3])
                                if (got or '') != v.rstrip() and (got or '') != v:
                                    continue
                            found = True
                    if not found:
                        out.violate('ack', 'ele-error-not-itemised|%s' % e.code,
                                    'element error %s at %s#%s ele %s-%s value %r is not itemised' % (
                                        e.code, e.seg_id, e.seg_count, e.ele_pos, e.subele_pos, e.value))
                        return
        k9 = ag['ak9']
        declared = WL.val(sg['ge'], 1) if sg['ge'] is not None else None
        declared_n = int(declared) if declared is not None and declared.isdigit() else 0
        want9 = [str(declared_n), str(len(sg['sets'])), str(accepted)]
        got9 = [k9.get(2), k9.get(3), k9.get(4)] if k9 is not None else None
        if got9 != want9:
            out.violate('ack', 'ak9-totals' + ('|ge-missing' if sg['ge'] is None else ''), 'group %d: AK9 totals %r, independent count %r (declared, received, accepted)' % (k + 1, got9, want9))
            if sg['ge'] is not None:
                return
            continue      # the listed known finding must not hide anything else in this run
        gcode = k9.get(1)
        if (gcode == 'A') != (not group_has_error):
            out.violate('ack', 'ak9-vs-errors|%s' % ('accepted-with-errors' if gcode == 'A' else 'rejected-without-errors'),
                        'group %d acknowledged %r, errors inside: %s' % (k + 1, gcode, group_has_error))
            return
    # (3b) every injected element fault is itemised at the position where it was injected (ground truth of the workload)
    txs = [tx for ag in a.sets for tx in ag['tx']]
    heavy = [k for _, k in case.get('tfaults', []) if k in ('drop_st', 'st01_foreign', 'idonly_seg')]
    for f in ([] if heavy else case.get('faults', [])):      # (a body emptied or a set no longer located changes what the faults mean)
        if not f.get('ele') or f.get('code') in (None, '*') or f.get('kind') in ('syntax_note', 'missing_required_comp'):      # (the latter: known wrong code, C03)
            continue
        line = f['line']
        set_ord, pos = 0, 0
        for k, s_ in enumerate(case['doc']):
            if s_['id'] == 'ST':
                set_ord += 1
                pos = 1
            elif s_['id'] not in ('ISA', 'GS', 'GE', 'IEA'):
                pos += 1
            if k == line:
                break
        if not (1 <= set_ord <= len(txs)):
            continue
        tx = txs[set_ord - 1]
        hit = False
        for s_ in tx['segs']:
            if s_['seg'] is None or s_['seg'].get(1) != f['seg_id'] or s_['seg'].get(2) != str(pos):
                continue
            for el in s_['eles']:
                p = el.elements[0] if el.elements else ['']
                pc = p[1] if len(p) > 1 and p[1] != '' else None
                if p[0] == str(f['ele']) and pc == (str(f['comp']) if f.get('comp') else None) and el.get(3) == f['code']:
                    hit = True
        if not hit and f['code'] in (IK4_CODES if is999 else AK4_CODES):
            out.violate('ack', 'injected-fault-not-itemised|%s' % f['kind'],
                        'fault %s injected at %s#%d element %s-%s (code %s) is not itemised at that position; lines for the set: %r' % (
                            f['kind'], f['seg_id'], pos, f['ele'], f.get('comp'), f['code'],
                            [[x['seg'].values() if x['seg'] is not None else None] + [e_.values() for e_ in x['eles']] for x in tx['segs']][:4]))
            return
    # (3c) the converse over the ground truth of the workload: when every defect of the document is a known, position-neutral
    # fault, an itemised segment line names a faulted segment of its set (or its trailer) - no innocent segment is blamed
    structural = [k for _, k in case.get('tfaults', []) if k in ('junk_gap', 'drop_se', 'drop_ge', 'drop_st', 'st01_foreign', 'idonly_seg')]
    if not structural and all(f.get('line') is not None and f.get('op') != 'delete' for f in case.get('faults', [])):
        faulted = {}
        for f in case.get('faults', []):
            set_ord, pos = 0, 0
            for k, s_ in enumerate(case['doc']):
                if s_['id'] == 'ST':
                    set_ord += 1
                    pos = 1
                elif s_['id'] not in ('ISA', 'GS', 'GE', 'IEA'):
                    pos += 1
                if k == f['line']:
                    break
            faulted.setdefault(set_ord, set()).add((case['doc'][f['line']]['id'], str(pos)))
        for n, tx in enumerate(txs):
            for s_ in tx['segs']:
                if s_['seg'] is None:
                    continue
                key = (s_['seg'].get(1), s_['seg'].get(2))
                if key[0] in ('ST', 'SE') or key in faulted.get(n + 1, set()):
                    continue
                out.violate('ack', 'innocent-segment-itemised|%s' % (s_['seg'].get(4) or ''),
                            'set %d: the acknowledgement blames %s at position %s (code %s), where no fault was injected; faults of the set: %r, trailer faults %r' % (
                                n + 1, key[0], key[1], s_['seg'].get(4), sorted(faulted.get(n + 1, set())), case.get('tfaults')))
                return
    # (4) addressing
    isas = [s for s in case['doc'] if s['id'] == 'ISA']
    gss = [s for s in case['doc'] if s['id'] == 'GS']
    if len(set((WL.val(s, 5), WL.val(s, 6), WL.val(s, 7), WL.val(s, 8)) for s in isas)) == 1 and a.isa is not None:
        s = isas[0]
        want = [WL.val(s, 7), WL.val(s, 8), WL.val(s, 5), WL.val(s, 6)]
        got = [a.isa.get(5), a.isa.get(6), a.isa.get(7), a.isa.get(8)]
        if got != want:
            out.violate('ack', 'isa-addressing', 'ack ISA05-08 %r, expected the source\'s receiver/sender swapped %r' % (got, want))
            return
    elif a.isa is not None and len(set(WL.val(s, 6) for s in isas)) > 1:
        out.violate('ack', 'isa-addressing|several-senders', 'the file holds interchanges from %d senders %r; the single acknowledgement interchange is '
                    'addressed to %r only' % (len(set(WL.val(s, 6) for s in isas)), sorted(set(WL.val(s, 6).strip() for s in isas)), (a.isa.get(8) or '').strip()))
    if len(set((WL.val(s, 2), WL.val(s, 3)) for s in gss)) == 1 and a.gs is not None:
        s = gss[0]
        want = [WL.val(s, 3).rstrip(), WL.val(s, 2).rstrip()]
        got = [a.gs.get(2), a.gs.get(3)]
        if got != want:
            out.violate('ack', 'gs-addressing', 'ack GS02/03 %r, expected %r' % (got, want))


def run_case(case, log):
    text = case_text(case)
    return docsim.run(text, case['cfg'], case['charset'], log), text


def execute(case):
    seams.import_pyx12()
    out = core.Outcome()
    log = core.EventLog()
    if 'unsupported' in case:
        out.probe('unsupported:' + case['entry']['file'])
        out.digest = log.digest()
        return out
    r, text = run_case(case, log)
    log.ev('verdict', r.verdict, r.exc_sig, sorted((e.level, e.code) for e in r.errors))
    out.sim_time = r.clock.span()
    for f in case['faults']:
        out.fault(f['kind'])
    for _, k in case['tfaults']:
        out.fault('trailer:' + k)
    if r.exc is not None:
        out.probe('validation-did-not-complete:' + r.exc_sig)      # C07's business; C05 speaks of completed validations
    else:
        check(case, r, out)
    codes = sorted('%s%s' % (e.level, e.code) for e in r.errors)
    out.cover.add('%s|%s|%s' % (case['entry']['file'], 'x'.join(map(str, case['shape'])), ','.join(codes)))
    out.info['knobs'] = {'map': case['entry']['file'], 'shape': 'x'.join(map(str, case['shape'])), 'nfaults': len(case['faults'])}
    out.steps = log.seq
    out.digest = log.digest()
    return out


def shrink(case, still):
    best = dict(case)
    cfg = dict(best['cfg'])
    for k, v in (('plan', {'kind': 'exact'}), ('bufsize', 8192), ('map_path', None), ('sinks', ['ack'])):
        c = dict(best, cfg=dict(cfg, **{k: v}))
        if still(c):
            best, cfg = c, c['cfg']
    return best


def sample_view(case, out):
    if 'doc' not in case:
        return {'map': case['entry']['file'], 'note': case.get('unsupported')}
    return {'map': case['entry']['file'], 'shape': case['shape'], 'faults': case['faults'][:5], 'trailer_faults': case['tfaults'],
            'segments': len(case['doc']), 'text_head': case_text(case)[:240]}
