"""Data-fault catalogue for the validation fault arm (C03) (DESIGN 3.5).

A document is a list of dicts {'id', 'vals', 'uid', 'seg_count', 'set_index'}
(vals: list of str | list[str]).  enumerate_faults() lists every applicable
(position, kind) with the mutated segment(s) and the expectation computed by the
reference rules.  Nothing here imports pyx12.
"""
import copy

import mapspec
from refmodel import values as V
from refmodel import element_rules as R

ENVELOPE = ('ISA', 'GS', 'ST', 'SE', 'GE', 'IEA', 'TA1')
ELEMENT_KINDS = ['too_long', 'too_short', 'bad_code', 'bad_class', 'bad_date', 'bad_time', 'missing_required_ele',
                 'not_used_ele', 'too_many_ele', 'too_many_comp', 'syntax_note', 'comp_in_simple', 'missing_required_comp']
SEGMENT_KINDS = ['missing_required_seg', 'unknown_seg', 'misplaced_seg', 'seg_over_max', 'loop_over_max', 'missing_required_loop']
PRIMARY = {'too_long': '5', 'too_short': '4', 'bad_code': '7', 'bad_class': '6', 'bad_date': '8', 'bad_time': '9',
           'missing_required_ele': '1', 'not_used_ele': '*', 'too_many_ele': '3', 'too_many_comp': '3'}


def from_gen(segs):
    return [{'id': g.node.id, 'vals': copy.deepcopy(g.vals), 'uid': getattr(g.node, 'uid', -1), 'seg_count': g.seg_count,
             'set_index': g.set_index, 'path': g.node.path()} for g in segs]


def node_of(m, seg):
    return m.by_uid.get(seg['uid'])


def qual_positions(node):
    return set(q[0] for q in mapspec.qualifiers(node))


def get_val(vals, e, c):
    if e > len(vals):
        return ''
    v = vals[e - 1]
    if isinstance(v, list):
        if c is None:
            return v
        return v[c - 1] if c <= len(v) else ''
    return v if (c is None or c == 1) else ''


def set_val(vals, e, c, new):
    while len(vals) < e:
        vals.append('')
    if c is None:
        vals[e - 1] = new
    else:
        v = vals[e - 1]
        if not isinstance(v, list):
            v = [v] if v != '' else ['']
        v = list(v)
        while len(v) < c:
            v.append('')
        v[c - 1] = new
        vals[e - 1] = v


def alphabet_value(el, n, rng, alphabet=None):
    d = el.dtype
    if d and (d[0] == 'N' or d == 'R' or d in ('D8', 'D6', 'DT', 'TM')):
        return ''.join(rng.choice('123456789') for _ in range(n))
    if d == 'RD8':
        return ('20040101-20040102' + '1' * n)[:n] if n > 17 else '2004010'[:n]
    v = ''.join(rng.choice(alphabet or V.PLAIN) for _ in range(n))
    if alphabet and n:
        # no blank at either end (leading/trailing blanks are findings of their own); any other hostile character may stand there
        if v[0] == ' ':
            v = rng.choice(V.PLAIN) + v[1:]
        if n > 1 and v[-1] == ' ':
            v = v[:-1] + rng.choice(V.PLAIN)
    return v


def excluded_target(seg, e, c):
    sid = seg['id']
    if sid in ENVELOPE:
        return True
    if sid == 'HL' and e in (1, 2):
        return True
    if sid == 'LX' and e == 1:
        return True
    if sid == 'BHT' and e == 2:
        return True
    return False


def element_targets(node):
    """yield (ele, comp, element node, composite node or None)"""
    for i, c in enumerate(node.children):
        if c.kind == 'composite':
            for j, sc in enumerate(c.children):
                yield i + 1, j + 1, sc, c
        else:
            yield i + 1, None, c, None


def fmt_types_for(node, e, c, vals):
    """format list that applies to this element through a qualifier, or None"""
    kids = node.children
    if node.id == 'DTP' and e == 3 and c is None:
        q = get_val(vals, 2, None)
        return [q] if isinstance(q, str) and q in V.QUAL_TYPES else None
    if c is None:
        el = kids[e - 1]
        if el.kind == 'element' and el.data_ele == '1251':
            prev = [x for x in kids[:e - 1] if x.kind == 'element' and x.data_ele == '1250']
            out = []
            for x in prev:
                out += x.codes
            return out or None
    else:
        comp = kids[e - 1]
        el = comp.children[c - 1]
        if el.data_ele == '1251':
            prev = [x for x in comp.children[:c - 1] if x.data_ele == '1250']
            return list(prev[-1].codes) or None if prev else None
    return None


_SIB = {}


def sibling_codes(m, node, e, c):
    """codes that the element at (e, c) may take in *any* node of this map with the same segment id"""
    key = (id(m), node.id, e, c)
    if key not in _SIB:
        out = set()
        for n in mapspec.walk(m):
            if n.kind == 'segment' and n.id == node.id and e <= len(n.children):
                ch = n.children[e - 1]
                if ch.kind == 'composite':
                    if c and c <= len(ch.children):
                        out.update(ch.children[c - 1].codes)
                else:
                    out.update(ch.codes)
        _SIB[key] = out
    return _SIB[key]


def enumerate_faults(m, doc, rng, charset, icvn, kinds=None, alphabet=None):
    """-> list of fault descriptors (dicts, JSON-able)"""
    out = []
    kinds = set(kinds or (ELEMENT_KINDS + SEGMENT_KINDS))
    codesets = m.codes
    for line, seg in enumerate(doc):
        node = node_of(m, seg)
        if node is None or seg['id'] in ENVELOPE or node.kind != 'segment':
            continue
        vals = seg['vals']
        quals = qual_positions(node)
        for (e, c, el, comp) in element_targets(node):
            if excluded_target(seg, e, c) or el.dtype is None:
                continue
            cur = get_val(vals, e, c)
            cur = cur if isinstance(cur, str) else ''
            neutral = (e, c) not in quals and (e, None if c == 1 else c) not in quals
            comp_present = comp is not None and any(x != '' for x in (get_val(vals, e, None) or []))

            def add(kind, new, expect_code, value=None):
                if not neutral and isinstance(new, str) and new in sibling_codes(m, node, e, c):
                    return        # the "wrong" qualifier is the right one of another node of this segment id: not a fault
                nv = copy.deepcopy(vals)
                set_val(nv, e, c, new)
                out.append({'kind': kind, 'line': line, 'ele': e, 'comp': c, 'op': 'replace', 'new_vals': nv, 'code': expect_code,
                            'value': value, 'neutral': neutral, 'ref': el.data_ele, 'seg_id': seg['id']})
            if cur != '' and el.usage != 'N':
                ft = fmt_types_for(node, e, c, vals)
                if 'too_long' in kinds and el.max_len < 300:
                    add('too_long', alphabet_value(el, el.max_len + 1, rng, alphabet), '5', 'new')
                if 'too_short' in kinds and el.min_len >= 2:
                    add('too_short', alphabet_value(el, el.min_len - 1, rng, alphabet), '4', 'new')
                if 'bad_code' in kinds and (el.codes or (el.external and el.external in codesets)):
                    pool = set(el.codes) | set(codesets.get(el.external, []) if el.external else [])
                    for _ in range(20):
                        n = rng.randint(el.min_len, min(el.max_len, el.min_len + 3))
                        cand = alphabet_value(el, max(n, 1), rng, alphabet)
                        if cand not in pool and V.is_member(cand, el.dtype, charset, icvn):
                            add('bad_code', cand, '7', 'new')
                            break
                if 'bad_class' in kinds and not ft:
                    d = el.dtype
                    n = max(el.min_len, min(el.max_len, 3))
                    if d in ('AN', 'ID') and n >= 1:
                        base = alphabet_value(el, n, rng)
                        bad = base[:-1] + '\x7f' if n > 1 else '\x7f'
                        add('bad_class', bad, '6', 'new')
                    elif d and d[0] == 'N' and n >= 2:
                        add('bad_class', alphabet_value(el, n - 1, rng) + 'A', '6', 'new')
                    elif d == 'R' and el.max_len >= 3:
                        add('bad_class', '1.2.3'[:max(3, min(5, el.max_len + 2))], '6', 'new')
                is_date = el.dtype in V.DATE_TYPES or (ft and any(t in V.DATE_TYPES for t in ft) and 'TM' not in ft)
                is_time = el.dtype == 'TM' or (ft and 'TM' in ft)
                if 'bad_date' in kinds and is_date:
                    types = ([el.dtype] if el.dtype in V.DATE_TYPES else []) + (ft or [])
                    cands = rng.sample(['20041301', '20040231', '19000229', '20010229', '21000229'], 5) + ['99999999', '041301', '999999', '20041301-20040101', '200413011200']
                    if rng.random() < 0.5:
                        # a value that is a member of *another* date/time format than the declared one(s)
                        cands = ['20040101-20040105', '1230', '040101', '123045'] + cands
                    for cand in cands:
                        if el.min_len <= len(cand) <= el.max_len and not any(V.is_member(cand, t, charset, icvn) for t in types):
                            if el.dtype in ('AN', 'ID') and not V.is_member(cand, el.dtype, charset, icvn):
                                continue
                            add('bad_date', cand, '8', 'new')
                            break
                if 'bad_time' in kinds and is_time:
                    types = ([el.dtype] if el.dtype == 'TM' else []) + (ft or [])
                    for cand in ['2460', '9999', '246000', '99999999']:
                        if el.min_len <= len(cand) <= el.max_len and not any(V.is_member(cand, t, charset, icvn) for t in types):
                            add('bad_time', cand, '9', 'new')
                            break
                if 'comp_in_simple' in kinds and comp is None and (e, None) not in quals and el.max_len >= 2 and rng.random() < 0.3:
                    # a simple element that holds a composite (the value contains the component separator)
                    nv = copy.deepcopy(vals)
                    set_val(nv, e, None, [cur[:max(1, len(cur) // 2)], 'B2'])
                    out.append({'kind': 'comp_in_simple', 'line': line, 'ele': e, 'comp': None, 'op': 'replace', 'new_vals': nv, 'code': '6',
                                'value': None, 'neutral': neutral, 'ref': el.data_ele, 'seg_id': seg['id']})
                if 'missing_required_ele' in kinds and el.usage == 'R':
                    nv = copy.deepcopy(vals)
                    set_val(nv, e, c, '')
                    still_comp = comp is None or R.present(nv[e - 1])
                    if any(R.present(x) for x in nv) and still_comp:
                        add('missing_required_ele', '', '1', None)
            if cur == '' and el.usage == 'N' and 'not_used_ele' in kinds:
                if comp is None or (comp.usage != 'N' and comp_present):
                    v = V.gen_member(rng, el.dtype, el.min_len, el.max_len) or 'A'
                    add('not_used_ele', v, '*', None)
        # segment-wide element faults
        if 'too_many_ele' in kinds:
            nv = copy.deepcopy(vals)
            while len(nv) < len(node.children):
                nv.append('')
            nv.append('X1')
            # one, two or three elements too many (a gap among them allowed): the error stands at the first position beyond the definition
            nv += rng.choice([[], [], ['X2'], ['', 'X3'], ['X2', 'X3']])
            out.append({'kind': 'too_many_ele', 'line': line, 'ele': len(node.children) + 1, 'comp': None, 'op': 'replace',
                        'new_vals': nv, 'code': '3', 'value': None, 'neutral': True, 'ref': None, 'seg_id': seg['id']})
        if 'missing_required_comp' in kinds:
            # a required composite left empty altogether (all its components blank), the segment staying present
            for i, cnode in enumerate(node.children):
                if cnode.kind == 'composite' and cnode.usage == 'R' and i < len(vals) and R.present(vals[i]) \
                        and not any((i + 1, k) in quals for k in (None, 1, 2, 3)):
                    nv = copy.deepcopy(vals)
                    nv[i] = ['']
                    if any(R.present(x) for x in nv):
                        out.append({'kind': 'missing_required_comp', 'line': line, 'ele': i + 1, 'comp': None, 'op': 'replace', 'new_vals': nv,
                                    'code': '1', 'value': None, 'neutral': True, 'ref': None, 'seg_id': seg['id']})
        if 'too_many_comp' in kinds:
            for i, cnode in enumerate(node.children):
                if cnode.kind == 'composite' and cnode.usage != 'N' and i < len(vals) and R.present(vals[i]):
                    nv = copy.deepcopy(vals)
                    v = list(nv[i]) if isinstance(nv[i], list) else [nv[i]]
                    while len(v) < len(cnode.children):
                        v.append('')
                    v.append('X1')
                    nv[i] = v
                    out.append({'kind': 'too_many_comp', 'line': line, 'ele': i + 1, 'comp': None, 'op': 'replace', 'new_vals': nv,
                                'code': '3', 'value': None, 'neutral': (i + 1, 1) not in quals, 'ref': None, 'seg_id': seg['id']})
        if 'syntax_note' in kinds and node.syntax:
            for ni, (typ, pos) in enumerate(node.syntax):
                nv = flip_for_note(node, vals, typ, pos, rng, charset, icvn, codesets, quals)
                if nv is not None:
                    f = {'kind': 'syntax_note', 'line': line, 'ele': None, 'comp': None, 'op': 'replace', 'new_vals': nv,
                         'code': '10' if typ == 'E' else '2', 'value': None, 'neutral': True, 'ref': None,
                         'seg_id': seg['id'], 'note': [typ, list(pos)]}
                    used = len(vals)
                    while used and not R.present(vals[used - 1]):
                        used -= 1
                    if len(nv) < used:
                        f['ctx'] = 'trailing-cut'       # the violated note names only positions beyond the end of the data
                    out.append(f)
    out += segment_faults(m, doc, rng, kinds)
    return out


def flip_for_note(node, vals, typ, pos, rng, charset, icvn, codesets, quals):
    """a presence flip that violates exactly this note and nothing else, or None"""
    kids = node.children
    n = len(kids)
    flags = [R.present(vals[i]) if i < len(vals) else False for i in range(n)]
    idx = [p - 1 for p in pos if p - 1 < n]
    cands = []
    if typ in ('P', 'C', 'L', 'R'):
        # remove one present member
        for i in idx:
            if flags[i] and kids[i].usage != 'R' and (i + 1, None) not in quals and (i + 1, 1) not in quals:
                nv = [copy.deepcopy(x) for x in vals]
                nv[i] = ''
                cands.append(nv)
        if typ == 'R':
            nv = [copy.deepcopy(x) for x in vals]
            ok = True
            for i in idx:
                if flags[i]:
                    if kids[i].usage == 'R' or (i + 1, None) in quals or (i + 1, 1) in quals:
                        ok = False
                    nv[i] = ''
            cands = [nv] if ok else []
    if typ in ('E', 'P', 'C'):
        # add an absent member (simple elements only)
        for i in idx:
            if not flags[i] and kids[i].kind == 'element' and kids[i].usage != 'N' and kids[i].dtype is not None \
                    and not kids[i].codes and not kids[i].external and kids[i].data_ele not in ('1250', '1251'):
                v = V.gen_member(rng, kids[i].dtype, kids[i].min_len, kids[i].max_len)
                if v is None or (kids[i].regex):
                    continue
                nv = [copy.deepcopy(x) for x in vals]
                while len(nv) <= i:
                    nv.append('')
                nv[i] = v
                cands.append(nv)
    for nv in cands:
        if not any(R.present(x) for x in nv):
            continue
        errs, dc, syn = R.segment_errors(node, nv, charset, icvn, codesets)
        if not errs and len(syn) == 1 and syn[0][1] == list(pos):
            while nv and not R.present(nv[-1]):
                nv.pop()
            return nv
    return None


# ------------------------------------------------------------------ segment-level faults

def set_bounds(doc, line):
    """(index of ST, index of SE) of the set containing line"""
    a = line
    while a >= 0 and doc[a]['id'] != 'ST':
        a -= 1
    b = line
    while b < len(doc) and doc[b]['id'] != 'SE':
        b += 1
    return a, b


def loop_parent_uid(m, seg):
    n = node_of(m, seg)
    return n.parent if n is not None else None


def segment_faults(m, doc, rng, kinds):
    out = []
    # index instances: consecutive segments sharing node uid and parent instance are approximated through inst path
    for line, seg in enumerate(doc):
        node = node_of(m, seg)
        if node is None or seg['id'] in ENVELOPE:
            continue
        parent = node.parent
        first_of_loop = parent.kind == 'loop' and parent.children and parent.children[0] is node
        same_node_lines = [k for k in range(*_inst_range(doc, line)) if doc[k]['uid'] == seg['uid']]
        if 'missing_required_seg' in kinds and node.usage == 'R' and not first_of_loop and len(same_node_lines) == 1 \
                and seg['id'] not in ('HL', 'LX', 'CLM', 'BHT'):
            if line + 1 < len(doc):
                ctx = 'plain'
                if line >= 1 and doc[line - 1].get('opens') is not None and doc[line + 1].get('opens') == doc[line - 1].get('opens'):
                    ctx = 'opener-then-repeat'     # the instance is left with its opening segment only and the loop repeats
                # same-position siblings may come in any order: the gap is only certain at the first later position
                slack = 0
                k = line + 1
                while k < len(doc) and doc[k].get('parent_uid') == seg.get('parent_uid') and doc[k]['id'] not in ENVELOPE \
                        and node_of(m, doc[k]) is not None and node_of(m, doc[k]).pos == node.pos:
                    slack += 1
                    k += 1
                if k < len(doc) and doc[k]['id'] == 'SE':
                    # the gap is only certain at the SE, whose position the running count does not include:
                    # rejection and the error are demanded, the position is not
                    ctx = 'before-SE'
                out.append({'kind': 'missing_required_seg', 'line': line, 'op': 'delete', 'code': '3', 'neutral': True,
                            'seg_id': seg['id'], 'ele': None, 'comp': None, 'value': None, 'ref': None, 'ctx': ctx, 'slack': slack})
        if 'missing_required_loop' in kinds and first_of_loop and parent.usage == 'R' and parent.type != 'wrapper' \
                and parent.id not in ('ISA_LOOP', 'GS_LOOP', 'ST_LOOP') and seg['id'] not in ('HL', 'LX', 'CLM', 'BHT') \
                and parent.parent is not None and parent.parent.kind == 'loop':
            # the whole (only) instance of a required loop inside its parent instance
            a_, b_ = set_bounds(doc, line)
            end = line + 1
            while end < b_ and _inside(m, doc[end], parent) and doc[end].get('opens') != seg['opens']:
                end += 1
            gp = parent.parent
            # extent of the enclosing instance of the grandparent: back to its opener, forward to its next opener / first segment outside
            lo = line
            while lo > a_ and not (doc[lo].get('opens') == gp.uid):
                lo -= 1
            hi = end
            while hi < b_ and _inside(m, doc[hi], gp) and doc[hi].get('opens') != gp.uid:
                hi += 1
            others = [k for k in range(lo, hi) if k != line and doc[k]['uid'] == seg['uid']]
            inner_numbered = any(doc[k]['id'] in ('HL', 'LX') for k in range(line, end))
            if not others and not inner_numbered and end < len(doc) and doc[end]['id'] != 'SE' and (gp.type == 'wrapper' or doc[lo].get('opens') == gp.uid):
                slack = 0
                k = end
                while k < hi and doc[k]['id'] not in ENVELOPE:
                    top = node_of(m, doc[k])
                    while top is not None and top.parent is not gp:
                        top = top.parent
                    if top is None or top.pos != parent.pos:
                        break
                    slack += 1
                    k += 1
                out.append({'kind': 'missing_required_loop', 'line': line, 'op': 'delete_n', 'n': end - line, 'code': '3', 'neutral': True,
                            'seg_id': seg['id'], 'ele': None, 'comp': None, 'value': None, 'ref': None, 'slack': slack,
                            'ctx': 'parent-repeats' if end < len(doc) and doc[end].get('opens') == gp.uid else 'loop'})
        if 'seg_over_max' in kinds and not first_of_loop and node.max_repeat() <= 3 and len(same_node_lines) == node.max_repeat() \
                and line == same_node_lines[-1] and seg['id'] not in ('HL', 'LX', 'CLM', 'BHT'):
            out.append({'kind': 'seg_over_max', 'line': line, 'op': 'insert_after', 'new_segs': [copy.deepcopy(seg)], 'code': '5',
                        'neutral': True, 'seg_id': seg['id'], 'ele': None, 'comp': None, 'value': None, 'ref': None})
            # the excess copy separated from the others by same-position siblings (e.g. REF*0F, REF*1L, REF*0F)
            k = line + 1
            while k < len(doc) and doc[k].get('parent_uid') == seg.get('parent_uid') and doc[k]['id'] not in ENVELOPE \
                    and doc[k]['uid'] != seg['uid'] and node_of(m, doc[k]) is not None and node_of(m, doc[k]).pos == node.pos:
                k += 1
            if k > line + 1:
                out.append({'kind': 'seg_over_max', 'line': k - 1, 'op': 'insert_after', 'new_segs': [copy.deepcopy(seg)], 'code': '5',
                            'neutral': True, 'seg_id': seg['id'], 'ele': None, 'comp': None, 'value': None, 'ref': None, 'ctx': 'non-adjacent'})
    # unknown / misplaced segments: a few positions per set
    body = [k for k, s in enumerate(doc) if s['id'] not in ENVELOPE]
    ids_in_map = set(n.id for n in mapspec.walk(m) if n.kind == 'segment')
    if body:
        for _ in range(min(4, len(body))):
            k = rng.choice(body)
            if 'unknown_seg' in kinds:
                sid = next(x for x in ('ZZZ', 'ZQ', 'XQ9', 'QQQ') if x not in ids_in_map)
                out.append({'kind': 'unknown_seg', 'line': k, 'op': 'insert_after', 'neutral': True, 'code': '1', 'seg_id': sid,
                            'new_segs': [{'id': sid, 'vals': ['A1', 'B2'], 'uid': -1}], 'ele': None, 'comp': None, 'value': None, 'ref': None})
        if 'unknown_seg' in kinds:
            # the same between the envelope segments, outside any transaction set (after ISA, GS, SE, GE or IEA)
            gaps = [i for i, s in enumerate(doc) if s['id'] in ('ISA', 'GS', 'SE', 'GE', 'IEA')]
            sid = next(x for x in ('ZZZ', 'ZQ', 'XQ9', 'QQQ') if x not in ids_in_map)
            for k in rng.sample(gaps, min(2, len(gaps))):
                out.append({'kind': 'unknown_seg', 'line': k, 'op': 'insert_after', 'neutral': True, 'code': '1', 'seg_id': sid, 'ctx': 'gap',
                            'new_segs': [{'id': sid, 'vals': ['A1', 'B2'], 'uid': -1}], 'ele': None, 'comp': None, 'value': None, 'ref': None})
        if 'misplaced_seg' in kinds:
            # a copy of an early segment placed where the outward search cannot find it (after the last body segment of the set)
            for _ in range(2):
                k = rng.choice(body)
                a, b = set_bounds(doc, k)
                early = [j for j in range(a + 1, b) if doc[j]['id'] not in ENVELOPE]
                if len(early) < 3:
                    continue
                src = early[0]
                tgt = early[-1]
                n_src = node_of(m, doc[src])
                if n_src is None or tgt == src:
                    continue
                # must not be findable from the target position by the reference search
                import docgen
                cur = node_of(m, doc[tgt])
                g = _getter(doc[src]['vals'])
                if cur is None or docgen.ref_search(cur, doc[src]['id'], g) is not None:
                    continue
                out.append({'kind': 'misplaced_seg', 'line': tgt, 'op': 'insert_after', 'neutral': True, 'code': '1|2',
                            'seg_id': doc[src]['id'], 'new_segs': [dict(copy.deepcopy(doc[src]), uid=-1)], 'ele': None, 'comp': None,
                            'value': None, 'ref': None})
    if 'loop_over_max' in kinds:
        out += loop_over_max_faults(m, doc)
    return out


def _getter(vals):
    def g(e, c=None):
        v = get_val(vals, e, c)
        if isinstance(v, list):
            return v[0] if len(v) == 1 else None
        return v
    return g


def _inst_range(doc, line):
    """range of lines belonging to the same loop instance level as `line` (approximation: contiguous segments of the same
    set between the previous and next segment whose node is the first segment of this node's parent loop)"""
    a, b = set_bounds(doc, line)
    puid = None
    lo = line
    while lo > a:
        if doc[lo].get('opens') == doc[line].get('parent_uid'):
            break
        lo -= 1
    hi = line + 1
    while hi < b and doc[hi].get('opens') != doc[line].get('parent_uid'):
        hi += 1
    return lo, hi


def annotate(m, doc):
    """add parent loop uid and 'opens' (uid of the loop this segment opens, if it is the first segment of its loop)"""
    for s in doc:
        n = node_of(m, s)
        if n is None or n.kind != 'segment':
            s['parent_uid'] = None
            s['opens'] = None
            continue
        p = n.parent
        s['parent_uid'] = getattr(p, 'uid', None)
        s['opens'] = p.uid if (p.kind == 'loop' and p.children and p.children[0] is n) else None
    return doc


def loop_over_max_faults(m, doc):
    out = []
    i = 0
    n = len(doc)
    # find runs of consecutive instances of a loop with small repeat and no HL/LX inside
    while i < n:
        s = doc[i]
        if s.get('opens') is not None:
            loop = m.by_uid[s['opens']]
            mx = loop.max_repeat()
            if mx <= 3 and loop.type != 'wrapper' and loop.id not in ('ISA_LOOP', 'GS_LOOP', 'ST_LOOP'):
                # collect consecutive instances
                inst = []
                j = i
                while j < n and doc[j].get('opens') == s['opens']:
                    k = j + 1
                    while k < n and _inside(m, doc[k], loop) and doc[k].get('opens') != s['opens']:
                        k += 1
                    inst.append((j, k))
                    j = k
                ids = set(doc[k]['id'] for a, b in inst for k in range(a, b))
                import docgen
                a, b = inst[-1] if inst else (i, i + 1)
                cur = node_of(m, doc[b - 1])
                first = node_of(m, doc[a])
                # the excess instance must be located as this loop from where it is appended (the map's own matching rule);
                # after a nested loop another node may claim its opening segment
                located = cur is not None and docgen.ref_search(cur, doc[a]['id'], _getter(doc[a]['vals'])) is first
                if len(inst) == mx and not (ids & {'HL', 'LX', 'CLM'}) and located:
                    a, b = inst[-1]
                    out.append({'kind': 'loop_over_max', 'line': b - 1, 'op': 'insert_after', 'neutral': True, 'code': '4',
                                'seg_id': doc[a]['id'], 'new_segs': [copy.deepcopy(x) for x in doc[a:b]], 'ele': None, 'comp': None,
                                'value': None, 'ref': None})
                i = j if j > i else i + 1
                continue
        i += 1
    return out


def _inside(m, seg, loop):
    n = node_of(m, seg)
    while n is not None and n.kind != 'map':
        if n is loop:
            return True
        n = n.parent
    return False


def apply_fault(doc, f):
    """-> (mutated doc, index of the segment where the error is expected)"""
    d = [dict(s, vals=copy.deepcopy(s['vals'])) for s in doc]
    line = f['line']
    delta = 0
    if f['op'] == 'replace':
        d[line]['vals'] = copy.deepcopy(f['new_vals'])
        where = line
    elif f['op'] == 'delete':
        del d[line]
        delta = -1
        where = line            # the next segment now sits at this index
    elif f['op'] == 'delete_n':
        del d[line:line + f['n']]
        delta = -f['n']
        where = line
    else:
        new = [dict(s, vals=copy.deepcopy(s['vals'])) for s in f['new_segs']]
        d[line + 1:line + 1] = new
        delta = len(new)
        where = line + 1
    if delta and f.get('ctx') != 'gap':
        a, b = set_bounds(d, min(where, len(d) - 1))
        if 0 <= a < b < len(d) and d[b]['id'] == 'SE':
            try:
                d[b]['vals'][0] = str(int(d[b]['vals'][0]) + delta)
            except ValueError:
                pass
    return d, where


def to_text(doc, seg_term='~', ele_term='*', sub_term=':', eol='\n'):
    out = []
    for s in doc:
        parts = []
        for v in s['vals']:
            if isinstance(v, list):
                v = list(v)
                while len(v) > 1 and v[-1] == '':
                    v.pop()
                parts.append(sub_term.join(v))
            else:
                parts.append(v)
        if s['id'] == 'ISA' and len(parts) >= 16:
            parts[15] = sub_term
        while parts and parts[-1] == '' and s['id'] != 'ISA':
            parts.pop()        # a writer of X12 trims trailing empty elements
        out.append(' ' * s.get('lead', 0) + s['id'] + (ele_term + ele_term.join(parts) if parts or s['id'] == 'ISA' else '') +
                   ele_term * s.get('trail', 0) + seg_term + eol)
    return ''.join(out)
